----------------------------- MODULE ParsModel -----------------------------
(***************************************************************************)
(* Layer M for parsimony reconstruction (C12): the passes of                *)
(* acr/asr ParsimonyAcr / ParsimonyAsr as a state machine.                  *)
(*                                                                          *)
(*   start --UpPass--> up --DownPass--> down --Deltran--> deltran           *)
(*                      \--Acctran--> acctran                               *)
(*                                                                          *)
(* State: the tree, the tip state sets, the per-node state sets after the   *)
(* last pass and the step count.  Each pass is transcribed from the code    *)
(* (children counted per state, states with the maximum count kept, steps   *)
(* += children lacking the kept state; up-sets from the parent side;        *)
(* intersections with the parent for DELTRAN / ACCTRAN).                    *)
(*                                                                          *)
(* Design level (INVARIANTS, every tree of the bound x every assignment):   *)
(* the step count is the Sankoff minimum and does not depend on the         *)
(* rooting; the down-pass sets are exactly the MPR sets; DELTRAN/ACCTRAN    *)
(* sets are inside them; tip sets are never altered when they are single    *)
(* states; unambiguous outputs are optimal; the two-pass MPR computation    *)
(* used by the trace specification equals the definition by forcing.        *)
(* Direction A: every initial state is printed as a case for the harness.   *)
(***************************************************************************)
EXTENDS TreeEnum, ParsProps, Json

CONSTANTS NTips, NStates, Ambiguous, Emit

VARIABLES tr, tipset, phase, sets, steps
vars == <<tr, tipset, phase, sets, steps>>

AllStates == {"A", "C", "G", "T"}
States == CASE NStates = 2 -> {"A", "C"} [] NStates = 3 -> {"A", "C", "G"} [] OTHER -> AllStates

Pool == TreesOf(NTips, NTips, {1})
V == MView(tr)

\* tip assignments; by symmetry of the states the first tip holds the first state (or a set containing it)
TipChoices == IF Ambiguous THEN SUBSET States \ {{}} ELSE {{s} : s \in States}
Assignments(t) ==
  LET tips == TipsM(t)
      t1   == CHOOSE x \in tips : \A y \in tips : x <= y
  IN  {f \in [tips -> TipChoices] : "A" \in f[t1]}

-----------------------------------------------------------------------------
(* transcription of the passes                                              *)

MaxI2(S) == CHOOSE x \in S : \A y \in S : x >= y
\* states held by the largest number of the given neighbour sets (computeParsimony)
MaxSet(nbsets) ==
  LET cnt == [k \in States |-> Cardinality({i \in DOMAIN nbsets : k \in nbsets[i]})]
      mx  == MaxI2({cnt[k] : k \in States})
  IN  [set |-> {k \in States : cnt[k] = mx}, max |-> mx]

SeqOfSet(S, f) == LET q == SetToSeqSorted(S) IN [i \in 1..Len(q) |-> f[q[i]]]

RECURSIVE UpFold(_, _, _, _, _)
UpFold(W, order, i, D, st) ==
  IF i > Len(order) THEN [D |-> D, steps |-> st]
  ELSE LET n == order[i]
           kids == Children(W, n)
       IN  IF n \in W.tips THEN UpFold(W, order, i + 1, D @@ (n :> tipset[n]), st)
           ELSE LET ms == MaxSet(SeqOfSet(kids, D))
                IN  UpFold(W, order, i + 1, D @@ (n :> ms.set), st + Cardinality(kids) - ms.max)

\* up[c] for every non-root node c, top-down; then the final sets
RECURSIVE UpSetsFold(_, _, _, _, _)
UpSetsFold(W, order, i, D, up) ==
  IF i < 1 THEN up
  ELSE LET c == order[i]
       IN  IF c = W.root THEN UpSetsFold(W, order, i - 1, D, up)
           ELSE LET p    == W.par[c]
                    sibs == Children(W, p) \ {c}
                    nbs  == SeqOfSet(sibs, D) \o (IF p = W.root THEN <<>> ELSE <<up[p]>>)
                IN  UpSetsFold(W, order, i - 1, D, up @@ (c :> MaxSet(nbs).set))

DownSets(W, order, D) ==
  LET up == UpSetsFold(W, order, Len(order), D, [x \in {} |-> {}])
  IN  [n \in W.nodes |->
         IF n = W.root \/ n \in W.tips THEN D[n]
         ELSE MaxSet(SeqOfSet(Children(W, n), D) \o <<up[n]>>).set]

RECURSIVE TopDownFold(_, _, _, _, _, _)
\* G[n] = F[n] narrowed to its intersection with the (already narrowed) parent, when not empty
TopDownFold(W, order, i, F, G, tipsToo) ==
  IF i < 1 THEN G
  ELSE LET n == order[i]
       IN  IF n = W.root \/ (n \in W.tips /\ ~tipsToo) THEN TopDownFold(W, order, i - 1, F, G @@ (n :> F[n]), tipsToo)
           ELSE LET inter == F[n] \cap G[W.par[n]]
                IN  TopDownFold(W, order, i - 1, F, G @@ (n :> IF inter # {} THEN inter ELSE F[n]), tipsToo)

-----------------------------------------------------------------------------

NoSets == [x \in {} |-> {}]

Init == /\ tr \in Pool
        /\ tipset \in Assignments(tr)
        /\ phase = "start" /\ sets = NoSets /\ steps = 0

UpPass ==
  /\ phase = "start"
  /\ LET r == UpFold(V, PostOrder(V), 1, NoSets, 0)
     IN  sets' = r.D /\ steps' = r.steps
  /\ phase' = "up" /\ UNCHANGED <<tr, tipset>>

DownPass ==
  /\ phase = "up"
  /\ sets' = DownSets(V, PostOrder(V), sets)
  /\ phase' = "down" /\ UNCHANGED <<tr, tipset, steps>>

Deltran ==
  /\ phase = "down"
  /\ sets' = TopDownFold(V, PostOrder(V), Len(PostOrder(V)), sets, NoSets, FALSE)
  /\ phase' = "deltran" /\ UNCHANGED <<tr, tipset, steps>>

Acctran ==
  /\ phase = "up"
  /\ sets' = TopDownFold(V, PostOrder(V), Len(PostOrder(V)), sets, NoSets, TRUE)
  /\ phase' = "acctran" /\ UNCHANGED <<tr, tipset, steps>>

Next == UpPass \/ DownPass \/ Deltran \/ Acctran
Spec == Init /\ [][Next]_vars

Rank(s) == CASE s = "A" -> 1 [] s = "C" -> 2 [] s = "G" -> 3 [] OTHER -> 4
TipJson == LET q == SetToSeqSorted(TipsM(tr))
           IN  [i \in 1..Len(q) |-> [nm |-> tr.nm[q[i]], st |-> SetToSortSeq(tipset[q[i]], LAMBDA a, b : Rank(a) < Rank(b))]]
EmitCase == (Emit /\ phase = "start") => PrintT("CASE|" \o ToJson([fam |-> "C12", pat |-> 1, ref |-> TreeJson(tr), trees |-> <<>>, tips |-> TipJson]))

-----------------------------------------------------------------------------
(* design-level theorems                                                    *)

Tipsets == [t \in V.tips |-> tipset[t]]
Best == MinSteps(V, States, Tipsets)
Mpr  == MPRSets(V, States, Tipsets)
Singles == \A t \in V.tips : Cardinality(tipset[t]) = 1

StepsAreMinimal == phase # "start" => steps = Best

RootingIndependent ==
  phase = "up" =>
    \A n \in {x \in tr.nodes : DegM(tr, x) >= 2} :
       LET W == MView(RerootM(tr, n))
       IN  MinSteps(W, States, [t \in W.tips |-> tipset[t]]) = steps

TwoPassMPRIsDefinition == phase = "up" => Mpr = MPRSetsByForcing(V, States, Tipsets)

DownpassIsMPR == phase = "down" => \A n \in Inner(V) : sets[n] = Mpr[n]

NarrowedSetsInsideMPR ==
  phase \in {"deltran", "acctran"} => \A n \in Inner(V) : sets[n] # {} /\ sets[n] \subseteq Mpr[n]

TipsUnaltered == (phase # "start" /\ Singles) => \A t \in V.tips : sets[t] = tipset[t]

UnambiguousIsOptimal ==
  (phase \in {"down", "deltran", "acctran"} /\ \A n \in V.nodes : Cardinality(sets[n]) = 1) =>
     CostOf(V, [n \in V.nodes |-> CHOOSE s \in sets[n] : TRUE]) = Best

=============================================================================
