----------------------------- MODULE WorkerPool -----------------------------
(***************************************************************************)
(* Layer M for the threaded computations (C11): tree.Compare,               *)
(* tree.CompareWeighted and support.FBP as a pool of workers between a      *)
(* producer of trees and the caller.                                        *)
(*                                                                          *)
(*   Reader --inq--> Worker[1..W] --outq--> Caller        Closer: wg.Wait   *)
(*                                                                          *)
(* Reader delivers trees 1..N in order (tree e, if any, carries an error),  *)
(* then closes inq.  A worker repeatedly receives a tree, computes its      *)
(* record in two steps ("mid1" builds the per-tree structures, "mid2" uses  *)
(* them - the steps between which the code touches variables declared      *)
(* outside the goroutine, if any), sends the record, and calls wg.Done when *)
(* inq is closed and empty.  Kind selects the error behaviour:              *)
(*   "compare"  an erroneous tree yields a record carrying the error        *)
(*   "fbp"      an erroneous tree makes the worker record the error (first  *)
(*              error wins, under a mutex) and return                       *)
(* Flags describe code variants the check must be able to tell apart:       *)
(*   DoneOnError  the returning worker calls wg.Done (deferred) - FALSE is  *)
(*                the defect fixed in 040c220                               *)
(*   Shared       the per-tree structure is one variable shared by the      *)
(*                workers - TRUE is the defect fixed in 855db0c             *)
(* Labels recv / mid1 / mid2 / send / done are the gate hooks of the code:  *)
(* a behaviour of this model restricted to the workers is a schedule the    *)
(* harness forces on the real goroutines.                                   *)
(***************************************************************************)
EXTENDS Integers, Sequences, FiniteSets, TLC, Json

CONSTANTS W, N, ErrAt, ErrAt2, Kind, DoneOnError, Shared, CapIn, CapOut

ReaderId == 0
Workers  == 1..W
CloserId == W + 1
CallerId == W + 2
F(i) == i * 7 + 1            \* the record computed from tree i

(* --fair algorithm WorkerPool
variables inq = <<>>, inclosed = FALSE, outq = <<>>, outclosed = FALSE,
          wgcount = W, err = 0, scratch = 0,
          collected = {}, sched = <<>>;

define
  IsErr(i) == i = ErrAt \/ (ErrAt2 # 0 /\ i = ErrAt2)   \* a second erroneous tree (0 = none)
end define;

process Reader = ReaderId
variable nexti = 1;
begin
rd_loop:
  while nexti <= N do
    rd_send: await Len(inq) < CapIn;
             inq := Append(inq, nexti);
             nexti := nexti + 1;
  end while;
rd_close: inclosed := TRUE;
end process;

process Worker \in Workers
variables item = 0, local = 0, res = 0;
begin
w_recv:
  await inq # <<>> \/ inclosed;
  if inq # <<>> then
    item := Head(inq); inq := Tail(inq);
    sched := Append(sched, <<self, "recv", item>>);
  else
    goto w_done;
  end if;
w_check:
  if IsErr(item) then
    if Kind = "fbp" then
      err := IF err = 0 THEN item ELSE err;
      sched := Append(sched, <<self, "err", item>>);
      if DoneOnError then goto w_done; else goto w_gone; end if;
    else
      res := -1;
      goto w_send;
    end if;
  end if;
w_mid1:
  if Shared then scratch := item; else local := item; end if;
  sched := Append(sched, <<self, "mid1", item>>);
w_mid2:
  res := F(IF Shared THEN scratch ELSE local);
  sched := Append(sched, <<self, "mid2", item>>);
w_send:
  await Len(outq) < CapOut;
  outq := Append(outq, [id |-> item, res |-> res]);
  sched := Append(sched, <<self, "send", item>>);
  goto w_recv;
w_done:
  wgcount := wgcount - 1;
  sched := Append(sched, <<self, "done", 0>>);
  goto w_end;
w_gone:
  \* returned without wg.Done
  skip;
w_end:
  skip;
end process;

process Closer = CloserId
begin
cl_wait: await wgcount = 0;
cl_close: outclosed := TRUE;
end process;

process Caller = CallerId
begin
ca_loop:
  await outq # <<>> \/ outclosed;
  if outq # <<>> then
    collected := collected \cup {Head(outq)};
    outq := Tail(outq);
    goto ca_loop;
  end if;
end process;

end algorithm; *)
\* BEGIN TRANSLATION (chksum(pcal) = "7c28162a" /\ chksum(tla) = "dd87725f")
VARIABLES pc, inq, inclosed, outq, outclosed, wgcount, err, scratch, 
          collected, sched

(* define statement *)
IsErr(i) == i = ErrAt \/ (ErrAt2 # 0 /\ i = ErrAt2)   \* a second erroneous tree (0 = none)

VARIABLES nexti, item, local, res

vars == << pc, inq, inclosed, outq, outclosed, wgcount, err, scratch, 
           collected, sched, nexti, item, local, res >>

ProcSet == {ReaderId} \cup (Workers) \cup {CloserId} \cup {CallerId}

Init == (* Global variables *)
        /\ inq = <<>>
        /\ inclosed = FALSE
        /\ outq = <<>>
        /\ outclosed = FALSE
        /\ wgcount = W
        /\ err = 0
        /\ scratch = 0
        /\ collected = {}
        /\ sched = <<>>
        (* Process Reader *)
        /\ nexti = 1
        (* Process Worker *)
        /\ item = [self \in Workers |-> 0]
        /\ local = [self \in Workers |-> 0]
        /\ res = [self \in Workers |-> 0]
        /\ pc = [self \in ProcSet |-> CASE self = ReaderId -> "rd_loop"
                                        [] self \in Workers -> "w_recv"
                                        [] self = CloserId -> "cl_wait"
                                        [] self = CallerId -> "ca_loop"]

rd_loop == /\ pc[ReaderId] = "rd_loop"
           /\ IF nexti <= N
                 THEN /\ pc' = [pc EXCEPT ![ReaderId] = "rd_send"]
                 ELSE /\ pc' = [pc EXCEPT ![ReaderId] = "rd_close"]
           /\ UNCHANGED << inq, inclosed, outq, outclosed, wgcount, err, 
                           scratch, collected, sched, nexti, item, local, res >>

rd_send == /\ pc[ReaderId] = "rd_send"
           /\ Len(inq) < CapIn
           /\ inq' = Append(inq, nexti)
           /\ nexti' = nexti + 1
           /\ pc' = [pc EXCEPT ![ReaderId] = "rd_loop"]
           /\ UNCHANGED << inclosed, outq, outclosed, wgcount, err, scratch, 
                           collected, sched, item, local, res >>

rd_close == /\ pc[ReaderId] = "rd_close"
            /\ inclosed' = TRUE
            /\ pc' = [pc EXCEPT ![ReaderId] = "Done"]
            /\ UNCHANGED << inq, outq, outclosed, wgcount, err, scratch, 
                            collected, sched, nexti, item, local, res >>

Reader == rd_loop \/ rd_send \/ rd_close

w_recv(self) == /\ pc[self] = "w_recv"
                /\ inq # <<>> \/ inclosed
                /\ IF inq # <<>>
                      THEN /\ item' = [item EXCEPT ![self] = Head(inq)]
                           /\ inq' = Tail(inq)
                           /\ sched' = Append(sched, <<self, "recv", item'[self]>>)
                           /\ pc' = [pc EXCEPT ![self] = "w_check"]
                      ELSE /\ pc' = [pc EXCEPT ![self] = "w_done"]
                           /\ UNCHANGED << inq, sched, item >>
                /\ UNCHANGED << inclosed, outq, outclosed, wgcount, err, 
                                scratch, collected, nexti, local, res >>

w_check(self) == /\ pc[self] = "w_check"
                 /\ IF IsErr(item[self])
                       THEN /\ IF Kind = "fbp"
                                  THEN /\ err' = (IF err = 0 THEN item[self] ELSE err)
                                       /\ sched' = Append(sched, <<self, "err", item[self]>>)
                                       /\ IF DoneOnError
                                             THEN /\ pc' = [pc EXCEPT ![self] = "w_done"]
                                             ELSE /\ pc' = [pc EXCEPT ![self] = "w_gone"]
                                       /\ res' = res
                                  ELSE /\ res' = [res EXCEPT ![self] = -1]
                                       /\ pc' = [pc EXCEPT ![self] = "w_send"]
                                       /\ UNCHANGED << err, sched >>
                       ELSE /\ pc' = [pc EXCEPT ![self] = "w_mid1"]
                            /\ UNCHANGED << err, sched, res >>
                 /\ UNCHANGED << inq, inclosed, outq, outclosed, wgcount, 
                                 scratch, collected, nexti, item, local >>

w_mid1(self) == /\ pc[self] = "w_mid1"
                /\ IF Shared
                      THEN /\ scratch' = item[self]
                           /\ local' = local
                      ELSE /\ local' = [local EXCEPT ![self] = item[self]]
                           /\ UNCHANGED scratch
                /\ sched' = Append(sched, <<self, "mid1", item[self]>>)
                /\ pc' = [pc EXCEPT ![self] = "w_mid2"]
                /\ UNCHANGED << inq, inclosed, outq, outclosed, wgcount, err, 
                                collected, nexti, item, res >>

w_mid2(self) == /\ pc[self] = "w_mid2"
                /\ res' = [res EXCEPT ![self] = F(IF Shared THEN scratch ELSE local[self])]
                /\ sched' = Append(sched, <<self, "mid2", item[self]>>)
                /\ pc' = [pc EXCEPT ![self] = "w_send"]
                /\ UNCHANGED << inq, inclosed, outq, outclosed, wgcount, err, 
                                scratch, collected, nexti, item, local >>

w_send(self) == /\ pc[self] = "w_send"
                /\ Len(outq) < CapOut
                /\ outq' = Append(outq, [id |-> item[self], res |-> res[self]])
                /\ sched' = Append(sched, <<self, "send", item[self]>>)
                /\ pc' = [pc EXCEPT ![self] = "w_recv"]
                /\ UNCHANGED << inq, inclosed, outclosed, wgcount, err, 
                                scratch, collected, nexti, item, local, res >>

w_done(self) == /\ pc[self] = "w_done"
                /\ wgcount' = wgcount - 1
                /\ sched' = Append(sched, <<self, "done", 0>>)
                /\ pc' = [pc EXCEPT ![self] = "w_end"]
                /\ UNCHANGED << inq, inclosed, outq, outclosed, err, scratch, 
                                collected, nexti, item, local, res >>

w_gone(self) == /\ pc[self] = "w_gone"
                /\ TRUE
                /\ pc' = [pc EXCEPT ![self] = "w_end"]
                /\ UNCHANGED << inq, inclosed, outq, outclosed, wgcount, err, 
                                scratch, collected, sched, nexti, item, local, 
                                res >>

w_end(self) == /\ pc[self] = "w_end"
               /\ TRUE
               /\ pc' = [pc EXCEPT ![self] = "Done"]
               /\ UNCHANGED << inq, inclosed, outq, outclosed, wgcount, err, 
                               scratch, collected, sched, nexti, item, local, 
                               res >>

Worker(self) == w_recv(self) \/ w_check(self) \/ w_mid1(self)
                   \/ w_mid2(self) \/ w_send(self) \/ w_done(self)
                   \/ w_gone(self) \/ w_end(self)

cl_wait == /\ pc[CloserId] = "cl_wait"
           /\ wgcount = 0
           /\ pc' = [pc EXCEPT ![CloserId] = "cl_close"]
           /\ UNCHANGED << inq, inclosed, outq, outclosed, wgcount, err, 
                           scratch, collected, sched, nexti, item, local, res >>

cl_close == /\ pc[CloserId] = "cl_close"
            /\ outclosed' = TRUE
            /\ pc' = [pc EXCEPT ![CloserId] = "Done"]
            /\ UNCHANGED << inq, inclosed, outq, wgcount, err, scratch, 
                            collected, sched, nexti, item, local, res >>

Closer == cl_wait \/ cl_close

ca_loop == /\ pc[CallerId] = "ca_loop"
           /\ outq # <<>> \/ outclosed
           /\ IF outq # <<>>
                 THEN /\ collected' = (collected \cup {Head(outq)})
                      /\ outq' = Tail(outq)
                      /\ pc' = [pc EXCEPT ![CallerId] = "ca_loop"]
                 ELSE /\ pc' = [pc EXCEPT ![CallerId] = "Done"]
                      /\ UNCHANGED << outq, collected >>
           /\ UNCHANGED << inq, inclosed, outclosed, wgcount, err, scratch, 
                           sched, nexti, item, local, res >>

Caller == ca_loop

(* Allow infinite stuttering to prevent deadlock on termination. *)
Terminating == /\ \A self \in ProcSet: pc[self] = "Done"
               /\ UNCHANGED vars

Next == Reader \/ Closer \/ Caller
           \/ (\E self \in Workers: Worker(self))
           \/ Terminating

Spec == /\ Init /\ [][Next]_vars
        /\ WF_vars(Next)

Termination == <>(\A self \in ProcSet: pc[self] = "Done")

\* END TRANSLATION 


-----------------------------------------------------------------------------
CONSTANT Emit

CallerDone == pc[CallerId] = "Done"
HasErr == ErrAt \in 1..N \/ ErrAt2 \in 1..N
ErrItems == {ErrAt, ErrAt2} \cap (1..N)

\* (i) the caller always gets to the end: no worker, closer or channel leaves it blocked
CallerTerminates == <>CallerDone

\* (ii) tree by tree exactly the records of the single-threaded run
ResultsSeq ==
  CallerDone =>
    IF Kind = "fbp"
    THEN ~HasErr => collected = {[id |-> i, res |-> F(i)] : i \in 1..N}
    ELSE collected = {[id |-> i, res |-> IF IsErr(i) THEN -1 ELSE F(i)] : i \in 1..N}

\* (iii) an erroneous tree reaches the caller
ErrorSurfaces ==
  (CallerDone /\ HasErr) => IF Kind = "fbp" THEN err \in ErrItems ELSE \A e \in ErrItems : [id |-> e, res |-> -1] \in collected

\* the worker part of a complete behaviour = a schedule for the real goroutines
EmitSchedule ==
  (Emit /\ CallerDone) =>
     PrintT("CASE|" \o ToJson([fam |-> "C11", kind |-> Kind, w |-> W, n |-> N, errat |-> ErrAt,
                                sched |-> [i \in 1..Len(sched) |-> <<sched[i][1], sched[i][3]>>]]))

=============================================================================
