----------------------------- MODULE EditProps -----------------------------
(***************************************************************************)
(* Layer P for the editing API: the listed properties C03, C05, C06, C07,   *)
(* C15, C17 (and the index part of C04) as predicates over a pre-state, the *)
(* arguments and a post-state.  They are phrased with the vocabulary of     *)
(* Trees.tla only, so TLC evaluates them both on the operational model      *)
(* (TreeOps.tla) and on states recorded from the real code (TraceEdit.tla). *)
(*                                                                          *)
(* Every operator named F_xxx returns the SET OF NAMES of the violated      *)
(* conjuncts (empty = holds), so that a finding carries its own signature.  *)
(***************************************************************************)
EXTENDS Trees

Fail(name, ok) == IF ok THEN {} ELSE {name}

-----------------------------------------------------------------------------
(* C03: enumerations agree with the structure                               *)

TipEdgeIds(T, V)   == {e \in EdgeIds(T) : T.E[e].r \in V.tips}
InnerEdgeIds(T, V) == EdgeIds(T) \ TipEdgeIds(T, V)

TraversalOK(T, V, seq, parentFirst) ==
  LET n   == Len(seq)
      pos == [x \in NodeIds(T) |-> IF \E i \in 1..n : seq[i][1] = x THEN CHOOSE i \in 1..n : seq[i][1] = x ELSE 0]
  IN  /\ n = Cardinality(NodeIds(T))
      /\ {seq[i][1] : i \in 1..n} = NodeIds(T)
      /\ \A i \in 1..n :
            LET x == seq[i][1]
            IN  IF x = T.root THEN seq[i][2] = 0 /\ seq[i][3] = 0
                ELSE /\ seq[i][2] = V.par[x]
                     /\ seq[i][3] = V.br[x].id
                     /\ IF parentFirst THEN pos[V.par[x]] < i ELSE pos[V.par[x]] > i

F_Enum(T, V, en) ==
     Fail("EnumNodes",    NoDupSeq(en.nodes) /\ SeqRange(en.nodes) = NodeIds(T))
  \cup Fail("EnumTips",     NoDupSeq(en.tips) /\ SeqRange(en.tips) = V.tips)
  \cup Fail("EnumEdges",    NoDupSeq(en.edges) /\ SeqRange(en.edges) = EdgeIds(T))
  \cup Fail("EnumInternal", NoDupSeq(en.int) /\ SeqRange(en.int) = InnerEdgeIds(T, V))
  \cup Fail("EnumTipEdges", NoDupSeq(en.tipe) /\ SeqRange(en.tipe) = TipEdgeIds(T, V))
  \cup Fail("EnumCounts",   Len(en.edges) = Len(en.nodes) - 1 /\ Len(en.edges) = Len(en.int) + Len(en.tipe))
  \cup Fail("EnumNames",    Len(en.names) = Len(en.tips) /\ SeqRange(en.names) = V.names
                            /\ SeqRange(en.sorted) = V.tips /\ NoDupSeq(en.sorted))
  \cup Fail("EnumRooted",   en.rooted = (RootDeg(V) = 2))
  \* Tree.PreOrder / Tree.PostOrder: every node once, with its parent and the branch above it; a node before (after) its parent
  \cup Fail("EnumPreOrder",  TraversalOK(T, V, en.pre, TRUE))
  \cup Fail("EnumPostOrder", TraversalOK(T, V, en.post, FALSE))
  \* a call-back answering false ends the traversal at once
  \cup Fail("EnumTraversalStops", LET k == IF en.stopat < Cardinality(NodeIds(T)) THEN en.stopat ELSE Cardinality(NodeIds(T))
                                  IN  en.prestop = k /\ en.poststop = k)

(* C03: the Newick text (read back by the reference reader into X) describes exactly the structure *)
KidsOf(T, V, n) == IF n = T.root THEN T.N[n].nb
                   ELSE SelectSeq(T.N[n].nb, LAMBDA m : m # V.par[n])

LabelOK(T, V, n, xn) ==
  IF T.N[n].nm # "" THEN xn.lab = T.N[n].nm
  ELSE IF n # T.root /\ BrOf(V, n).sup # NIL
       THEN xn.num /\ xn.sup = BrOf(V, n).sup /\ xn.pv = BrOf(V, n).pv
       ELSE xn.lab = ""

DecoOK(T, V, n, xn) ==
  IF n = T.root THEN xn.len = NIL /\ xn.cm \o xn.ecm = T.N[n].cm
  ELSE LET e == BrOf(V, n)
       IN  /\ xn.len = e.len
           /\ IF e.len = NIL THEN xn.cm \o xn.ecm = T.N[n].cm \o e.cm
              ELSE xn.cm = T.N[n].cm /\ xn.ecm = e.cm

RECURSIVE TxtMatch(_, _, _, _, _)
TxtMatch(T, V, n, X, x) ==
  LET kids == KidsOf(T, V, n)
      xn   == X.nodes[x]
  IN  /\ Len(xn.ch) = Len(kids)
      /\ LabelOK(T, V, n, xn)
      /\ DecoOK(T, V, n, xn)
      /\ \A i \in 1..Len(kids) : TxtMatch(T, V, kids[i], X, xn.ch[i])

F_Text(T, V, X) == Fail("TextAgrees", X.ok /\ TxtMatch(T, V, T.root, X, X.root))

-----------------------------------------------------------------------------
(* C05: re-rooting, unrooting, reordering never change the tree itself      *)

SupKept(V, W) ==
  LET a == SingleSup(V)
      b == SingleSup(W)
  IN  \A s \in (DOMAIN a) \cap (DOMAIN b) : a[s] = b[s]

F_SameTree(V, W) ==
     Fail("SameTips",      V.names = W.names /\ UniqueNames(W))
  \cup Fail("SameSplitLens", SplitLen(V) = SplitLen(W))
  \cup Fail("SameDist",      V.names = W.names => DistMat(V) = DistMat(W))
  \cup Fail("SupKept",       SupKept(V, W))

RootKids(V)  == Children(V, V.root)
MaxOf(S)     == CHOOSE x \in S : \A y \in S : x >= y

\* outgroup S forms one side of a split of V
IsSide(V, S) == S # {} /\ S # V.names /\ {S, V.names \ S} \in Splits(V)

F_OutGroup(V, W, S, strict, remove) ==
  IF IsSide(V, S)
  THEN IF ~remove
       THEN F_SameTree(V, W)
            \cup Fail("OutgroupIsRootClade",
                      RootDeg(W) = 2 /\ \E c \in RootKids(W) : W.below[c] = S)
            \cup Fail("EqualHalves",
                      RootDeg(W) = 2 =>
                        LET ks == RootKids(W)
                            k1 == CHOOSE k \in ks : TRUE
                            k2 == CHOOSE k \in ks : k # k1
                        IN  /\ Num(BrOf(W, k1).len) = Num(BrOf(W, k2).len)
                            \* the separating branch is one branch when the tree has no single-child chain
                            /\ SingleNodes(V) = {} =>
                                 Num(BrOf(W, k1).len) + Num(BrOf(W, k2).len) = SplitLen(V)[{S, V.names \ S}])
       ELSE LET K == V.names \ S
            IN   Fail("OutgroupRemoved", W.names = K /\ UniqueNames(W))
            \cup Fail("RestIntactSplits", W.names = K => NTSplits(W) = InducedNT(V, K))
            \cup Fail("RestIntactDist",   W.names = K => DistMat(W) = DistMatOn(V, K))
  ELSE \* not one side of a split: must have been refused in strict mode
         Fail("StrictRefuses", ~strict)
    \cup (IF remove \/ S = {} THEN {}
          ELSE F_SameTree(V, W)
               \cup Fail("OutgroupInsideRootClade", \E c \in RootKids(W) : S \subseteq W.below[c]))

\* after midpoint rooting the root lies halfway along a longest tip-to-tip path
F_MidPoint(V, W) ==
  F_SameTree(V, W)
  \cup Fail("RootAtMidpoint",
        LET dm   == DistMat(V)
            diam == MaxOf({dm[p] : p \in DOMAIN dm})
            far(c) == MaxOf({RootDist(W, t) : t \in {u \in W.tips : c \in W.anc[u]}})
        IN  /\ RootDeg(W) = 2
            /\ \A c \in RootKids(W) : 2 * far(c) = diam)

-----------------------------------------------------------------------------
(* C06: pruning yields exactly the induced subtree                          *)

F_Prune(V, W, names, revert) ==
  LET K == IF revert THEN V.names \cap names ELSE V.names \ names
  IN     Fail("PrunedTipSet",    W.names = K /\ UniqueNames(W))
    \cup Fail("PruneIsInduced",  W.names = K => NTSplits(W) = InducedNT(V, K))
    \cup Fail("PruneKeepsDist",  W.names = K => DistMat(W) = DistMatOn(V, K))
    \* on an input that already had single-child inner nodes: none is added (those away from the removed tips stay)
    \cup Fail("NoSingleChild",   IF SingleNodes(V) = {} THEN SingleNodes(W) = {} /\ RootDeg(W) >= 2
                                 ELSE Cardinality(SingleNodes(W)) <= Cardinality(SingleNodes(V)))

F_Lookups(W, res) ==
     Fail("ExistsTipFresh", SeqRange(res.exists) = SeqRange(res.asked) \cap W.names)
  \cup Fail("TipNodeFresh",   SeqRange(res.tipnode) = SeqRange(res.asked) \cap W.names)

-----------------------------------------------------------------------------
(* C07: collapse removes exactly the targeted branches; resolve only refines *)

InnerNonRoot(V) == NonRoot(V) \ V.tips
\* the split carried by the root branches of a rooted tree (excluded from the exact-set claim)
RootSplits(V)   == IF IsRooted(V) THEN {SplitOf(V, c) : c \in RootKids(V)} ELSE {}
TopoDepthOf(V, n) == LET a == Cardinality(V.below[n])
                         b == Cardinality(V.names) - a
                     IN  IF a < b THEN a ELSE b

\* must: branches that satisfy the criterion; may: branches for which the documentation is silent
F_Collapse(V, W, must, may, keepTipLens) ==
  LET rs      == RootSplits(V)
      mustS   == {SplitOf(V, n) : n \in must} \ rs
      mayS    == {SplitOf(V, n) : n \in may}
      before  == NTSplits(V) \ rs
      after   == NTSplits(W) \ rs
      removed == before \ after
      lv == SingleLenRaw(V)
      lw == SingleLenRaw(W)
  IN     Fail("CollapseSameTips",  V.names = W.names /\ UniqueNames(W))
    \cup Fail("CollapseNothingNew", after \subseteq before)
    \cup Fail("CollapseAllTargets", mustS \cap NTSplits(V) \subseteq removed)
    \cup Fail("CollapseOnlyTargets", removed \subseteq (mustS \cup mayS))
    \cup Fail("CollapseKeepsSupports", SupKept(V, W))
    \cup Fail("CollapseKeepsLengths",
              \A s \in (DOMAIN lv) \cap (DOMAIN lw) : (keepTipLens \/ NonTrivial(s)) => lv[s] = lw[s])
    \cup Fail("CollapseKeepsNames",
              {<<W.below[n], W.nm[n]>> : n \in InnerNonRoot(W)} \subseteq
              {<<V.below[n], V.nm[n]>> : n \in InnerNonRoot(V)})

\* rmRoot: the caller allowed the branches under the root of a rooted tree to be removed (removeRoot / --root); otherwise
\* they are not among "the inner branches" the call may remove: the tree stays rooted and the root bipartition keeps its length
F_CollapseR(V, W, must, may, keepTipLens, rmRoot) ==
  F_Collapse(V, W, must, may, keepTipLens)
  \cup (IF rmRoot \/ ~IsRooted(V) THEN {}
        ELSE Fail("CollapseKeepsTheRootBranches",
                  /\ IsRooted(W)
                  /\ \A s \in RootSplits(V) :
                        /\ s \in Splits(W)
                        \* (with removeTips the length of a tip branch under the root becomes 0)
                        /\ (keepTipLens \/ RootKids(V) \cap V.tips = {}) => SplitLen(W)[s] = SplitLen(V)[s]))

F_Resolve(V, W) ==
     Fail("ResolveSameTips",  V.names = W.names /\ UniqueNames(W))
  \cup Fail("ResolveBinary",    Binary(W))
  \cup Fail("ResolveRefines",   Splits(V) \subseteq Splits(W))
  \cup Fail("ResolveKeepsDist", V.names = W.names => DistMat(V) = DistMat(W))
  \cup Fail("ResolveAddsZeroNoSupport",
            \A n \in NonRoot(W) : SplitOf(W, n) \notin Splits(V) => BrOf(W, n).len = 0 /\ BrOf(W, n).sup = NIL)
  \cup Fail("ResolveKeepsSupports", SupKept(V, W))

-----------------------------------------------------------------------------
(* C15: local edits leave the rest intact                                   *)

F_KeepsOldDist(V, W, K) ==
  Fail("OldDistKept", K \subseteq W.names /\ K \subseteq V.names /\ DistMatOn(W, K) = DistMatOn(V, K))

\* grafting tree G in place of tip `tip`
F_GraftTree(V, W, G, tip) ==
  LET K == V.names \ {tip}
  IN     Fail("GraftTipSet", W.names = K \cup G.names /\ UniqueNames(W))
    \cup F_KeepsOldDist(V, W, K)
    \cup Fail("GraftKeepsGraftDist", G.names \subseteq W.names /\ DistMatOn(W, G.names) = DistMat(G))

F_Merge(V, W, G) ==
     Fail("MergeTipSet", W.names = V.names \cup G.names /\ UniqueNames(W))
  \cup F_KeepsOldDist(V, W, V.names)
  \cup Fail("MergeKeepsOtherDist", G.names \subseteq W.names /\ DistMatOn(W, G.names) = DistMat(G))
  \cup Fail("MergeRooted", RootDeg(W) = 2)

\* groups: sequence of sequences of names, each with exactly one existing member
F_Identical(V, W, groups) ==
  LET all == UNION {SeqRange(groups[i]) : i \in 1..Len(groups)}
      tb  == TLCEval(TipByName(W))
  IN     Fail("IdenticalTipSet", W.names = V.names \cup all /\ UniqueNames(W))
    \cup F_KeepsOldDist(V, W, V.names)
    \cup Fail("IdenticalAtDistanceZero",
              W.names = V.names \cup all =>
              \A i \in 1..Len(groups) : \A a, b \in SeqRange(groups[i]) : Dist(W, tb[a], tb[b]) = 0)

F_RemoveSingle(V, W) ==
     Fail("SingleSameTips", V.names = W.names /\ UniqueNames(W))
  \cup Fail("SingleKeepsDist", V.names = W.names => DistMat(V) = DistMat(W))
  \cup Fail("SingleNoneLeft", SingleNodes(W) = {})

\* B is the subtree of V extracted at node n
F_SubTree(V, B, n) ==
     Fail("SubTreeTipSet", B.names = V.below[n] /\ UniqueNames(B))
  \cup Fail("SubTreeKeepsDist", B.names = V.below[n] => DistMat(B) = DistMatOn(V, V.below[n]))

-----------------------------------------------------------------------------
(* C17: NNI                                                                 *)

\* inner branches: both ends inner; the two root branches of a rooted tree are one branch
InnerBranchSplits(V) == NTSplits(V)
F_NNICount(V, n) == Fail("TwoPerInnerBranch", n = 2 * Cardinality(InnerBranchSplits(V)))
F_NNIApply(V, W) ==
     Fail("NNISameTips", V.names = W.names /\ UniqueNames(W))
  \cup Fail("NNIOneSplitEachWay",
            /\ Cardinality(NTSplits(V) \ NTSplits(W)) = 1
            /\ Cardinality(NTSplits(W) \ NTSplits(V)) = 1)

-----------------------------------------------------------------------------
(* C04 (index part): after (re)indexing every branch's recorded split equals the real one *)

\* idx[e] = [has, bits (ranks), blen, nl, nr, td, h], rank = sorted tip names (harness' own ranking)
F_IndexFresh(T, V, idx, rank) ==
  LET nm(S) == {rank[i] : i \in S}
      N     == Cardinality(V.names)
  IN  Fail("IndexBitset",
           \A n \in NonRoot(V) : LET ix == idx[V.br[n].id] IN
               ix.has /\ ix.blen = N /\ nm(SeqRange(ix.bits)) = V.below[n])
  \cup Fail("IndexCounts",
           \A n \in NonRoot(V) : LET ix == idx[V.br[n].id] IN
               ix.nr = Cardinality(V.below[n]) /\ ix.nl = N - Cardinality(V.below[n]))
  \cup Fail("IndexTopoDepth",
           \A n \in NonRoot(V) : idx[V.br[n].id].td = TopoDepthOf(V, n))
  \cup Fail("HashEqualOnEqualSplits",
           \A n, m \in NonRoot(V) : SplitOf(V, n) = SplitOf(V, m) => idx[V.br[n].id].h = idx[V.br[m].id].h)

=============================================================================
