---------------------------- MODULE SplitterDef ----------------------------
(***************************************************************************)
(* fileutils.ReadUntilSemiColon as a function on (document, position): the  *)
(* definitions shared by the Splitter machine and the trace specification.  *)
(* Characters: ";" , " " (space), "\t" (tab), anything else.                *)
(***************************************************************************)
EXTENDS Integers, Sequences, FiniteSets, SequencesExt, TLC

\* index of the last non-blank character of buffer b scanning back from its end, as the (repaired) code does:
\* stops at 1 (the code's 0) even if that character is a blank
RECURSIVE ScanBack(_, _)
ScanBack(b, i) == IF i > 1 /\ b[i] \in {" ", "\t"} THEN ScanBack(b, i - 1) ELSE i

\* one call of ReadUntilSemiColon from line p: [buf, next, eof, idx]
RECURSIVE ReadFrom(_, _, _, _)
ReadFrom(d, p, buf, idx) ==
  IF p > Len(d) THEN [buf |-> buf, next |-> p, eof |-> TRUE, idx |-> idx]
  ELSE LET b2 == buf \o d[p]
           i  == IF Len(b2) > 0 THEN ScanBack(b2, Len(b2)) ELSE 1
           last == IF Len(b2) > 0 THEN b2[i] ELSE "0"
           idx2 == IF i < idx THEN i ELSE idx
       IN  IF last = ";" THEN [buf |-> b2, next |-> p + 1, eof |-> FALSE, idx |-> idx2]
           ELSE ReadFrom(d, p + 1, b2, idx2)


\* all groups the loop of ReadMultiTrees obtains from a document
RECURSIVE GroupsFrom(_, _, _)
GroupsFrom(d, p, acc) ==
  LET r == ReadFrom(d, p, <<>>, 1)
  IN  IF r.eof THEN acc ELSE GroupsFrom(d, r.next, Append(acc, r.buf))
Groups(d) == GroupsFrom(d, 1, <<>>)

=============================================================================
