------------------------------ MODULE TreeEnum ------------------------------
(***************************************************************************)
(* Enumeration of all multifurcating labelled trees with k tips (tips 1..k  *)
(* named t1..tk, inner nodes numbered above their inner children, every     *)
(* inner node with at least two children) x decoration patterns, and their  *)
(* JSON form for replay on the real library.  Shared by the operational     *)
(* models (TreeOps, CalcModel, ...).                                        *)
(***************************************************************************)
EXTENDS TreeOpsDef

TipName(i) == "t" \o ToString(i)

RECURSIVE Pow2(_)
Pow2(n) == IF n <= 0 THEN 1 ELSE 2 * Pow2(n - 1)

LenPat(p, n, isTip) ==
  CASE p = 1 -> Pow2(n) * 65536                     \* distinct powers of two: a path sum identifies its branches
    [] p = 2 -> 1048576                             \* all equal: ties between longest paths
    [] p = 3 -> 0                                   \* all zero
    [] p = 4 -> IF isTip THEN 0 ELSE 1048576        \* zero-length branches at the far ends of every path
    [] p = 5 -> NIL                                 \* no lengths at all
    [] p = 6 -> IF n % 3 = 0 THEN NIL ELSE IF n % 3 = 1 THEN 0 ELSE Pow2(n) * 65536
    [] p = 7 -> IF isTip THEN 1048576 ELSE 0        \* zero-length inner branches
    [] p = 8 -> (1 + (n % 2)) * 524288                \* two values: many ties
SupPat(p, n, isTip) ==
  IF isTip THEN NIL
  ELSE CASE p \in {1, 6} -> (((n * 5) % 16)) * 65536
         [] p \in {2, 4} -> 524288
         [] p = 7 -> IF n % 2 = 0 THEN NIL ELSE 786432
         [] p = 8 -> ((n % 3)) * 262144
         [] OTHER -> NIL

Shapes(k, j) ==
  \* parent functions on 1..k+j-1 with values in the inner nodes k+1..k+j (root = k+j)
  LET inner == (k + 1)..(k + j)
      tp    == [1..k -> inner]
      ip    == {f \in [(k + 1)..(k + j - 1) -> inner] : \A i \in DOMAIN f : f[i] > i}
  IN  {<<t, i>> \in tp \X ip :
         \A x \in inner : Cardinality({a \in 1..k : t[a] = x}) + Cardinality({a \in DOMAIN i : i[a] = x}) >= 2}

MkTree(k, j, t, i, p) ==
  LET N    == 1..(k + j)
      root == k + j
      par  == [n \in N |-> IF n = root THEN 0 ELSE IF n <= k THEN t[n] ELSE i[n]]
  IN  [nodes |-> N, root |-> root, par |-> par,
       nm  |-> [n \in N |-> IF n <= k THEN TipName(n) ELSE ""],
       len |-> [n \in N |-> IF n = root THEN NIL ELSE LenPat(p, n, n <= k)],
       sup |-> [n \in N |-> IF n = root THEN NIL ELSE SupPat(p, n, n <= k)],
       pv  |-> [n \in N |-> NIL]]


TreesOf(mn, mx, pats) ==
  UNION {UNION {{MkTree(k, j, s[1], s[2], p) : s \in Shapes(k, j)} : j \in 1..(k - 1)} : k \in mn..mx, p \in pats}

SetToSeqSorted(S) == SetToSortSeq(S, LAMBDA a, b : a < b)

TreeJson(t) ==
  [root |-> t.root,
   nodes |-> [i \in 1..Cardinality(t.nodes) |->
                LET n == SetToSeqSorted(t.nodes)[i]
                IN  [id |-> n, par |-> t.par[n], nm |-> t.nm[n], len |-> t.len[n], sup |-> t.sup[n], pv |-> t.pv[n]]]]

=============================================================================
