----------------------------- MODULE IndexProps -----------------------------
EXTENDS Trees
F_IndexOps(Ts, Vs, args, res) == {}
F_HashPairs(Ts, Vs, res) == {}
F_Quartets(args, res) == {}
=============================================================================
