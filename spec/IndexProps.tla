----------------------------- MODULE IndexProps -----------------------------
(***************************************************************************)
(* Layer P for C04 beyond index freshness (EditProps.F_IndexFresh):         *)
(*  - branches of trees on the same taxa compare equal exactly when they    *)
(*    define the same split, and equal splits hash equally, whatever the    *)
(*    rooting, orientation or child order (F_HashPairs);                    *)
(*  - the split-keyed index answers like a plain map split -> value         *)
(*    through any sequence of insertions, overwrites and resizes            *)
(*    (F_IndexOps; the model of the bucket structure is EdgeIndex.tla);     *)
(*  - the same equality/hash agreement for quartets (F_Quartets).           *)
(***************************************************************************)
EXTENDS CalcProps

EdgeNode(V, e)  == CHOOSE n \in NonRoot(V) : V.br[n].id = e
EdgeSplit(V, e) == SplitOf(V, EdgeNode(V, e))

\* res.same[e][f], res.heq[e][f] : SameBipartition / HashEquals of branch e of tree 1 and branch f of tree 2
F_HashPairs(Ts, Vs, res) ==
  LET E1 == EdgeIds(Ts[1])
      E2 == EdgeIds(Ts[2])
      s1 == TLCEval([e \in E1 |-> EdgeSplit(Vs[1], e)])
      s2 == TLCEval([e \in E2 |-> EdgeSplit(Vs[2], e)])
  IN  IF Vs[1].names # Vs[2].names THEN {"HashPairsSameTaxa"}
      ELSE Fail("EqualSplitsHashEqually", \A e \in E1, f \in E2 : s1[e] = s2[f] => Ts[1].idx[e].h = Ts[2].idx[f].h)
           \cup Fail("SameBipartitionIffSameSplit", \A e \in E1, f \in E2 : res.same[e][f] = (s1[e] = s2[f]))
           \cup Fail("HashEqualsIffSameSplit", \A e \in E1, f \in E2 : res.heq[e][f] = (s1[e] = s2[f]))
           \cup Fail("EqualSplitsHashEquallyWithinTree",
                     /\ \A e, f \in E1 : s1[e] = s1[f] => Ts[1].idx[e].h = Ts[1].idx[f].h
                     /\ \A e, f \in E2 : s2[e] = s2[f] => Ts[2].idx[e].h = Ts[2].idx[f].h)

-----------------------------------------------------------------------------
(* the index against a plain map.  args.ops[i] = [op, t, e, cnt] : branch e of tree t is the key;      *)
(* res.results[i] = [ok, cnt, len]; res.final = sequence of [t, e, cnt] (stored key branch and count)  *)

OpSplit(Vs, o) == EdgeSplit(Vs[o.t], o.e)
OpLen(Ts, o)   == Ts[o.t].E[o.e].len

RECURSIVE IdxFold(_, _, _, _, _, _, _)
IdxFold(Ts, Vs, ops, rs, i, plain, bad) ==
  IF i > Len(ops) THEN [plain |-> plain, bad |-> bad]
  ELSE LET o == ops[i]
           s == OpSplit(Vs, o)
           l == OpLen(Ts, o)
           has == s \in DOMAIN plain
       IN  CASE o.op = "Put" ->
                  IdxFold(Ts, Vs, ops, rs, i + 1,
                          [x \in DOMAIN plain \cup {s} |-> IF x = s THEN [cnt |-> o.cnt, len |-> l] ELSE plain[x]], bad)
             [] o.op = "Add" ->
                  IdxFold(Ts, Vs, ops, rs, i + 1,
                          [x \in DOMAIN plain \cup {s} |->
                             IF x = s THEN (IF has THEN [cnt |-> plain[s].cnt + 1, len |-> plain[s].len + l] ELSE [cnt |-> 1, len |-> l])
                             ELSE plain[x]], bad)
             [] OTHER -> \* Value
                  LET r  == rs[i]
                      ok == IF has THEN r.ok /\ r.cnt = plain[s].cnt /\ r.len = plain[s].len ELSE ~r.ok
                  IN  IdxFold(Ts, Vs, ops, rs, i + 1, plain, IF ok THEN bad ELSE bad \cup {i})

F_IndexOps(Ts, Vs, args, res) ==
  LET r     == IdxFold(Ts, Vs, args.ops, res.results, 1, [x \in {} |-> 0], {})
      final == {<<EdgeSplit(Vs[res.final[i].t], res.final[i].e), res.final[i].cnt>> : i \in 1..Len(res.final)}
  IN  Fail("IndexLookupsLikePlainMap", r.bad = {})
      \cup Fail("IndexContentLikePlainMap",
                /\ Len(res.final) = Cardinality(DOMAIN r.plain)
                /\ final = {<<s, r.plain[s].cnt>> : s \in DOMAIN r.plain})

-----------------------------------------------------------------------------
(* quartets: args.quads[i] = <<t1,t2,t3,t4>> meaning (t1,t2)|(t3,t4)       *)

QTaxa(q) == {q[1], q[2], q[3], q[4]}
QTopo(q) == {{q[1], q[2]}, {q[3], q[4]}}

F_Quartets(args, res) ==
  LET Q == args.quads
      n == Len(Q)
  IN  Fail("QuartetHashEqualsIffSameTaxa", \A i, j \in 1..n : res.eq[i][j] = (QTaxa(Q[i]) = QTaxa(Q[j])))
      \cup Fail("QuartetEqualHashWhenEqual", \A i, j \in 1..n : QTaxa(Q[i]) = QTaxa(Q[j]) => res.h[i] = res.h[j])
      \cup Fail("QuartetCompare",
                \A i, j \in 1..n :
                   res.cmp[i][j] = IF QTaxa(Q[i]) # QTaxa(Q[j]) THEN 2 ELSE IF QTopo(Q[i]) = QTopo(Q[j]) THEN 0 ELSE 1)

=============================================================================
