----------------------------- MODULE TraceCalc -----------------------------
(***************************************************************************)
(* Layer T for the computing entry points: one TLC step per recorded call   *)
(* (harness driver `vh calc`, and the replay of the cases TLC emits from    *)
(* CalcModel.tla).  The step recomputes the result from the definitions     *)
(* (CalcProps, ParsProps, IndexProps, GenProps) on the projected input      *)
(* trees and reports every violated predicate as                            *)
(*   FAIL|property|predicate|kind|class|line|case                           *)
(* Acceptance: every line consumed (POSTCONDITION).                         *)
(***************************************************************************)
EXTENDS CalcProps, ParsProps, IndexProps, GenProps, SampleProps, StatsProps, Json

CONSTANT PROPS

Trace == ndJsonDeserialize("trace.ndjson")

VARIABLES l, nfail
vars == <<l, nfail>>

\* predicates of StatsProps.GrowthPreds describe behaviour outside the listed properties: reported under "GROWTH" (notes)
Report(ev, cls, fails) ==
  \A f \in fails : PrintT("FAIL|" \o (IF f \in GrowthPreds THEN "GROWTH" ELSE ev.prop) \o "|" \o f \o "|" \o ev.kind \o "|" \o cls \o "|" \o ToString(l) \o "|" \o ev.case)

\* every input tree must be a well-formed tree in the domain, else the case is a harness problem
InputsOK(ev) == \A i \in 1..Len(ev.trees) : WellFormed(ev.trees[i])
Views(ev) == [i \in 1..Len(ev.trees) |-> View(ev.trees[i])]

RootedClass(Vs) == IF \E i \in 1..Len(Vs) : IsRooted(Vs[i]) THEN "rooted" ELSE "unrooted"

\* kinds whose call must succeed on in-domain input
MustSucceed == {"DistMatrix", "AvgMatrix", "TipBags", "Compare", "CompareRF", "CompareWeightedCLI", "CommonEdges", "CompareWeighted", "Consensus", "ConsensusMixedLengths", "FBP", "TBE",
                "StatsSummary", "StatsEdges", "StatsSplits", "StatsNodes", "StatsTips", "Parsimony", "ParsimonySeq", "IndexOps", "HashPairs", "Quartets", "Generator", "Topologies", "Draws", "Shuffle"}
\* kinds for which only "no crash, terminates" is claimed (degenerate sizes)
OnlyTotal   == {"GeneratorTwoTips"}
\* kinds whose call must be refused with an error (not a crash, not a success)
MustRefuse  == {"ConsensusBadCutoff", "ConsensusBadTaxa", "FBPBadTaxa", "TBEBadTaxa", "GeneratorTooSmall"}

Judge(ev, Vs) ==
  CASE ev.kind = "DistMatrix" -> F_DistMatrix(ev.trees[1], Vs[1], ev.args.metric, ev.res)
    [] ev.kind = "AvgMatrix"  -> F_AvgMatrix(ev.trees, Vs, ev.args.metric, ev.res)
    [] ev.kind = "TipBags"    -> F_TipBags(Vs[1], ev.args.thr, ev.res.bags)
    [] ev.kind = "Compare"    -> F_Compare(Vs[1], Vs[2], ev.args.tips, ev.args.identical, ev.res)
    [] ev.kind = "CommonEdges" -> F_CommonEdges(Vs[1], Vs[2], ev.args.tips, ev.res)
    [] ev.kind = "CompareWeightedCLI" -> F_CompareWeightedCLI(Vs[1], Vs[2], ev.args.tips, ev.res)
    [] ev.kind = "CompareRF"  -> F_CompareRF(Vs[1], Vs[2], ev.args.tips, ev.res)
    [] ev.kind = "CompareWeighted" -> F_CompareWeighted(Vs[1], Vs[2], ev.args.tips, ev.res)
    [] ev.kind = "Consensus"  -> IF WellFormed(ev.out) THEN F_Consensus(Vs, ev.args.num, ev.args.den, View(ev.out), ev.res)
                                 ELSE {"ConsensusWellFormed"}
    [] ev.kind = "ConsensusMixedLengths" ->
         IF WellFormed(ev.out)
         THEN F_ConsensusNamed(Vs, ev.args.num, ev.args.den, View(ev.out), ev.res, "ConsensusLengthsOverTreesThatHaveOne")
         ELSE {"ConsensusWellFormed"}
    [] ev.kind \in {"FBP", "TBE"} ->
         IF WellFormed(ev.out)
         THEN F_Support(ev.kind, Vs[1], [i \in 1..(Len(Vs) - 1) |-> Vs[i + 1]], View(ev.out), ev.res)
         ELSE {"SupportWellFormed"}
    [] ev.kind = "StatsSummary" -> F_StatsSummary(Vs[1], ev.args.id, ev.res)
    [] ev.kind = "StatsEdges"   -> F_StatsEdges(Vs[1], ev.args.id, ev.res)
    [] ev.kind = "StatsSplits"  -> F_StatsSplits(ev.trees[1], Vs[1], ev.args.id, ev.res)
    [] ev.kind = "StatsNodes"   -> F_StatsNodes(Vs[1], ev.args.id, ev.res)
    [] ev.kind = "StatsTips"    -> F_StatsTips(Vs[1], ev.args.id, ev.res)
    [] ev.kind = "Parsimony"    -> F_Parsimony(Vs[1], ev.args, ev.res)
    [] ev.kind = "ParsimonySeq" -> F_ParsimonySeq(Vs[1], ev.args, ev.res)
    [] ev.kind = "IndexOps"     -> F_IndexOps(ev.trees, Vs, ev.args, ev.res)
    [] ev.kind = "HashPairs"    -> F_HashPairs(ev.trees, Vs, ev.res)
    [] ev.kind = "Quartets"     -> F_Quartets(ev.args, ev.res)
    [] ev.kind = "Generator"    -> F_Generator(ev.out, ev.args, ev.res)
    [] ev.kind = "Topologies"   -> F_TopologiesOn(ev.trees, ev.args)
    [] ev.kind = "Draws"        -> F_Draws(ev.args, ev.res)
    [] ev.kind = "Shuffle"      -> F_Shuffle(ev.args, ev.res)
    [] OTHER -> {"UnknownKind"}

Init == l = 1 /\ nfail = 0

TraceStep ==
  /\ l <= Len(Trace)
  /\ l' = l + 1
  /\ LET ev == Trace[l]
     IN  IF ev.ev # "case" \/ ev.prop \notin PROPS THEN UNCHANGED nfail
         ELSE IF ~InputsOK(ev)
         THEN PrintT(<<"HARNESS", "input tree not well formed", l>>) /\ nfail' = nfail
         ELSE LET Vs  == Views(ev)
                  cls == RootedClass(Vs)
                  f   == IF ev.panic THEN {"NoCrash"}
                         ELSE IF ev.hang THEN {"Terminates"}
                         ELSE IF ev.kind \in MustRefuse THEN Fail("RejectedWithError", ~ev.ok)
                         ELSE IF ev.kind \in OnlyTotal THEN {}
                         ELSE IF ~ev.ok THEN (IF ev.kind \in MustSucceed THEN {"UnexpectedError"} ELSE {})
                         ELSE Judge(ev, Vs)
              IN  Report(ev, cls, f) /\ nfail' = nfail + Cardinality(f)

Spec == Init /\ [][TraceStep]_vars

Accepted ==
  /\ TLCGet("stats").diameter - 1 = Len(Trace)
  /\ PrintT(<<"ACCEPTED", Len(Trace), TLCGet("stats").diameter - 1>>)

=============================================================================
