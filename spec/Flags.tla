------------------------------- MODULE Flags -------------------------------
(***************************************************************************)
(* Layer M for the option registry of the CLI (C19).                        *)
(*                                                                          *)
(* Every command registers its options in a package initialiser:            *)
(* Register(f) binds option f of command cmd[f] to a storage cell and       *)
(* writes its documented default into that cell.  Cells may be shared by    *)
(* options of different commands.  The initialisers run in an order the     *)
(* commands do not control (file order of the package), so every order is   *)
(* explored.  Running a command with an option omitted reads the cell;      *)
(* running it with the option given writes the given value first.           *)
(*                                                                          *)
(* TLC explores every registration table of the bound and every order, and  *)
(* checks that "omitting an option means its documented default, for every  *)
(* command, whatever the other commands registered" holds exactly when all  *)
(* options sharing a cell document the same default - the static condition  *)
(* the trace specification evaluates on the real registry - and that in     *)
(* that case registering one more command never changes what another        *)
(* command uses (non-interference).                                         *)
(***************************************************************************)
EXTENDS Integers, FiniteSets, TLC

CONSTANTS Opts, Cells, Vals      \* option instances, storage cells, default values

VARIABLES table,      \* Opts -> [cell, def] : the registration table (chosen nondeterministically)
          registered, \* options registered so far
          store       \* Cells -> value currently held (NoVal before any registration)
vars == <<table, registered, store>>

NoVal == "unset"

Init == /\ table \in [Opts -> [cell : Cells, def : Vals]]
        /\ registered = {}
        /\ store = [c \in Cells |-> NoVal]

Register(f) ==
  /\ f \notin registered
  /\ registered' = registered \cup {f}
  /\ store' = [store EXCEPT ![table[f].cell] = table[f].def]
  /\ UNCHANGED table

Next == \E f \in Opts : Register(f)
Spec == Init /\ [][Next]_vars

\* what a command sees for option f
Omitted(f)  == store[table[f].cell]
Given(f, v) == v

AgreeOnSharedCells == \A f, g \in Opts : table[f].cell = table[g].cell => table[f].def = table[g].def

\* after every initialiser has run: omitting = passing the documented default, iff the static condition
OmittedMeansDocumented ==
  registered = Opts => ((\A f \in Opts : Omitted(f) = Given(f, table[f].def)) <=> AgreeOnSharedCells)

\* with the static condition, a registered option keeps its effective default whatever is registered later
NonInterference ==
  AgreeOnSharedCells => \A f \in registered : Omitted(f) = table[f].def

=============================================================================
