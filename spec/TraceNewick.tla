---------------------------- MODULE TraceNewick ----------------------------
(***************************************************************************)
(* Layer T for the Newick reader and writer (C01, Newick part of C02/C13).  *)
(* Events:                                                                  *)
(*  ParseText  a text (as the token sequence the harness concretised or     *)
(*             tokenised) given to the real parser, with its outcome and    *)
(*             the tree it built (as a decorated ordered tree D2)           *)
(*  RoundTrip  a tree D built through the API, the tokens of the text the   *)
(*             real writer produced, the tree D2 the real parser read back, *)
(*             and whether writing D2 gave byte-identical text              *)
(* Judged with NewickDef: the writer emits Write(D); the parser computes    *)
(* Parse(tokens); and (C01) D2 = D, second text identical.                  *)
(***************************************************************************)
EXTENDS NewickDef, Json

CONSTANT PROPS

Trace == ndJsonDeserialize("trace.ndjson")

VARIABLES l, nfail
vars == <<l, nfail>>

Rep(prop, pred, ev, cls) ==
  PrintT("FAIL|" \o prop \o "|" \o pred \o "|" \o ev.kind \o "|" \o cls \o "|" \o ToString(l) \o "|" \o ev.case)

\* numeric words are compared by their value symbols, not by their text
NormTok(t) == IF t.k = "w" /\ t.num >= 1 THEN [t EXCEPT !.tx = ""] ELSE t
NormToks(s) == [i \in 1..Len(s) |-> NormTok(s[i])]

SameTree(A, B) == A = B

Judge(ev) ==
  CASE ev.kind = "ParseText" ->
         LET m == Parse(ev.toks)
         IN  IF ev.panic THEN {<<"C02", "NoCrash">>}
             ELSE IF ev.hang THEN {<<"C02", "Terminates">>}
             \* accept / refuse agreement with the transcribed machine is CONFORMANCE, not a listed property (C02 allows
             \* either answer on malformed text; well-formed writer output is judged by the RoundTrip events): a note
             ELSE (IF (m.phase = "ok") # ev.ok THEN {<<"GROWTH", "G_ParserAcceptsWhatTheModelAccepts">>} ELSE {})
                  \cup (IF m.phase = "ok" /\ ev.ok /\ ~SameTree(m.N, ev.tree) THEN {<<"C01", "ParserBuildsTheModelTree">>} ELSE {})
                  \cup (IF ev.ok /\ ev.postcrash THEN {<<"C02", "DeliveredTreeUsable">>} ELSE {})
    [] ev.kind = "RoundTrip" ->
         IF ev.panic THEN {<<"C01", "NoCrash">>}
         ELSE (IF NormToks(ev.toks) # NormToks(Write(ev.tree)) THEN {<<"C01", "WriterEmitsTheModelTokens">>} ELSE {})
              \cup (IF ~ev.ok THEN {<<"C01", "WrittenTextIsParsed">>}
                    ELSE (IF ~SameTree(ev.tree2, ev.tree) THEN {<<"C01", "RoundTripPreservesTheTree">>} ELSE {})
                         \cup (IF ~ev.same2 THEN {<<"C01", "SecondWriteIsIdentical">>} ELSE {})
                         \cup (IF Parse(ev.toks).phase # "ok" \/ ~SameTree(Parse(ev.toks).N, ev.tree2)
                               THEN {<<"C01", "ParserBuildsTheModelTree">>} ELSE {}))
    [] OTHER -> {}

Init == l = 1 /\ nfail = 0
TraceStep ==
  /\ l <= Len(Trace) /\ l' = l + 1
  /\ LET ev == Trace[l]
         f  == {x \in Judge(ev) : x[1] \in PROPS \cup {"GROWTH"}}
     IN  /\ \A x \in f : Rep(x[1], x[2], ev, ev.cls)
         /\ nfail' = nfail + Cardinality(f)
Spec == Init /\ [][TraceStep]_vars

Accepted ==
  /\ TLCGet("stats").diameter - 1 = Len(Trace)
  /\ PrintT(<<"ACCEPTED", Len(Trace), TLCGet("stats").diameter - 1>>)

=============================================================================
