----------------------------- MODULE TraceEdit -----------------------------
(***************************************************************************)
(* Layer T: validation of executions recorded from the real gotree code     *)
(* (harness driver `vh edit` / `vh replay-edit`) against the edit           *)
(* properties.  One TLC step per recorded public call.  `cur` carries the   *)
(* abstract state of the tracked objects: the pre-state of step k+1 is the  *)
(* post-state of step k, so a stale hidden state that only shows on the     *)
(* next operation is inside the checked behaviour.                          *)
(*                                                                          *)
(* A failed predicate does not stop the validation: it is reported as       *)
(*   <<"FAIL", property, predicate, operation, argument class, line, case>> *)
(* and counted; the orchestrator matches the signature against              *)
(* known_findings.json.  Acceptance: every line was consumed (POSTCONDITION).*)
(***************************************************************************)
EXTENDS TreeOpsDef, Json

CONSTANTS PROPS,     \* the property ids whose predicates are evaluated in this run
          CONFORM    \* also check that the real result is one the operational model (TreeOpsDef) allows

Trace == ndJsonDeserialize("trace.ndjson")

VARIABLES l,       \* next line of the trace
          cur,     \* [a |-> tree, b |-> tree] : abstract states of the tracked objects
          alive,   \* is the history still judged (policy 10: after an error the object is dead)
          nfail    \* number of failed predicates so far
vars == <<l, cur, alive, nfail>>

NoTree == [root |-> 0, N |-> <<>>, E |-> <<>>]
Has(T) == T.root # 0

Report(prop, ev, cls, fails) ==
  \A f \in fails : PrintT("FAIL|" \o prop \o "|" \o f \o "|" \o ev.op \o "|" \o cls \o "|" \o ToString(l) \o "|" \o ev.case)

On(p) == p \in PROPS

-----------------------------------------------------------------------------
(* argument classes (part of a finding's signature)                         *)

RootClass(V) == IF RootDeg(V) = 2 THEN "rooted" ELSE "unrooted"

-----------------------------------------------------------------------------
(* Judgement of one successful call                                         *)

\* C03 on any post-state
C03Fails(ev, T) ==
  LET wf == WFBroken(T)
  IN  IF wf # {} THEN {"WellFormed." \o w : w \in wf}
      ELSE LET V == View(T)
           IN  IF ~InDomain(V) THEN {}
               ELSE (IF "enum" \in DOMAIN T THEN F_Enum(T, V, T.enum) ELSE {"EnumMissing"})
                    \cup (IF "txt" \in DOMAIN T THEN F_Text(T, V, T.txt) ELSE {"TextMissing"})

C06TraceFails(ev, V, W) ==
  C06Fails(ev, V, W) \cup (IF ev.op = "RemoveTips" /\ SingleNodes(V) = {} THEN F_Lookups(W, ev.res) ELSE {})

C15Fails(ev, V, W) ==
  CASE ev.op = "GraftTreeOnTip" -> F_GraftTree(V, W, View(ev.post2), ev.args.tip)
    [] ev.op = "Merge"          -> F_Merge(V, W, View(ev.post2))
    [] ev.op \in {"InsertIdenticalTips", "RemoveSingleNodes"} -> C15LocalFails(ev, V, W)
    [] ev.op = "SubTree"        -> F_SameTree(V, W) \cup
                                   (IF WellFormed(ev.post2) THEN F_SubTree(V, View(ev.post2), ev.args.node)
                                    ELSE {"SubTreeWellFormed"})
    [] ev.op = "Clone"          -> Fail("CloneIsExactCopy",
                                        /\ WellFormed(ev.post2)
                                        /\ Canon(View(ev.post2)) = Canon(W)
                                        /\ ev.post2.sha = ev.post.sha /\ ev.post2.txt = ev.post.txt)
                                   \cup Fail("CloneLeavesSource", Canon(V) = Canon(W))
    [] OTHER -> {}

C17Fails(ev, T0, V, T1, W) ==
  IF ev.op # "NNI" THEN {}
  ELSE F_NNICount(V, ev.args.n)
       \cup (IF ev.args.undo
             THEN Fail("UndoRestoresExactly", T1 = T0)
             ELSE F_NNIApply(V, W))

\* full enumeration of the NNI neighbourhood: res.nb[i] = projection after applying rearrangement i (undone afterwards)
C17AllFails(ev, V, T0, T1) ==
  IF ev.op # "NNIAll" THEN {}
  ELSE LET nb == ev.res.nb
           ok(i) == WellFormed(nb[i])
           S(i) == NTSplits(View(nb[i]))
       IN  F_NNICount(V, Len(nb))
           \cup Fail("NeighboursAreTrees", \A i \in 1..Len(nb) : ok(i))
           \cup (IF \A i \in 1..Len(nb) : ok(i)
                 THEN LET SS == TLCEval([i \in 1..Len(nb) |-> S(i)])
                      IN  Fail("NeighboursPairwiseDistinct", \A i, j \in 1..Len(nb) : i # j => SS[i] # SS[j])
                          \cup Fail("NeighbourDiffersByOneSplit",
                                    \A i \in 1..Len(nb) : /\ Cardinality(NTSplits(V) \ SS[i]) = 1
                                                           /\ Cardinality(SS[i] \ NTSplits(V)) = 1
                                                           /\ View(nb[i]).names = V.names)
                 ELSE {})
           \cup Fail("UnchangedAfterFullEnumeration", T1 = T0)

C04Fails(ev, T, W) ==
  IF ev.op \in {"ReinitIndexes", "Init"} /\ "idx" \in DOMAIN T
  THEN F_IndexFresh(T, W, T.idx, T.rank)
  ELSE {}

(* GROWTH (beyond the listed properties): the hidden caches of a Tree -- tip index (ExistsTip / TipNode / TipIndex)  *)
(* and per-branch bitsets / tip counts -- as a small state machine.  Each public call either refreshes a cache,     *)
(* keeps it as it was, or makes no promise; the table is transcribed from the code (which calls UpdateTipIndex /    *)
(* ReinitInternalIndexes / ReinitIndexes where).  Judged in one direction only: where the machine says "fresh", the  *)
(* recorded look-ups and bitsets must be those of the structure.                                                    *)
BitsRefresh == {"CollapseShortBranches", "CollapseLowSupport", "CollapseTopoDepth", "GraftTipOnEdge", "GraftTreeOnTip",
                "InsertIdenticalTips", "Merge", "ReinitIndexes", "RemoveSingleNodes", "RemoveTips", "Reroot", "RerootFirst",
                "RerootOutGroup", "RerootMidPoint", "Resolve", "ShuffleTips"}
BitsKeep    == {"Clone", "RotateInternalNodes", "RotateNeighbors", "SortNeighborsByTips", "ClearLengths", "ClearSupports",
                "ScaleLengths"}
\* no promise: NNI (the rearranged branch keeps its old bitset), Rename (the rank of the names changes), SubTree, comment edits
LookupsOK(T) == "found" \in DOMAIN T /\ SeqRange(T.found) = View(T).names
BitsOK(T)    == "idx" \in DOMAIN T /\ F_IndexFresh(T, View(T), T.idx, T.rank) = {}
CacheFails(ev, T0, T1) ==
  IF ~("idx" \in DOMAIN T1 /\ "found" \in DOMAIN T1 /\ "idx" \in DOMAIN T0) THEN {}
  ELSE LET V == View(T0)
           bitsMust == \/ ev.op \in BitsRefresh
                       \/ (ev.op \in BitsKeep /\ BitsOK(T0))
                       \/ (ev.op = "UnRoot" /\ (IsRooted(V) \/ BitsOK(T0)))
       IN  (IF ev.op \notin {"SubTree", "TwinCommentEdit"} /\ ~LookupsOK(T1) THEN {"G_LookupsFreshAfterOp"} ELSE {})
           \cup (IF bitsMust /\ ~BitsOK(T1) THEN {"G_BitsetsFreshAfterOp"} ELSE {})

\* all judgements of a successful step; T0 = pre, T1 = post (both of object a)
StepFails(ev, T0, T1) ==
  LET wf1 == WFBroken(T1)
  IN  IF wf1 # {} THEN <<"C03", {"WellFormed." \o w : w \in wf1}>>
      ELSE
      LET V == View(T0)
          W == View(T1)
      IN  IF ~InDomain(V) \/ ~InDomain(W) THEN <<"", {}>>
          ELSE <<"*",
                 [C03 |-> IF On("C03") THEN C03Fails(ev, T1) ELSE {},
                  C04 |-> IF On("C04") THEN C04Fails(ev, T1, W) ELSE {},
                  C05 |-> IF On("C05") THEN C05Fails(ev, V, W) ELSE {},
                  C06 |-> IF On("C06") THEN C06TraceFails(ev, V, W) ELSE {},
                  C07 |-> IF On("C07") THEN C07Fails(ev, V, W) ELSE {},
                  C15 |-> IF On("C15")
                          THEN C15Fails(ev, V, W)
                               \* an in-place edit of the copy (comments) must leave the history's own object identical
                               \cup (IF ev.op = "TwinCommentEdit" THEN Fail("SourceUnchangedByCopyEdit", T1 = T0) ELSE {})
                          ELSE {},
                  C17 |-> IF On("C17") THEN C17Fails(ev, T0, V, T1, W) \cup C17AllFails(ev, V, T0, T1) ELSE {}]>>

PropIds == {"C03", "C04", "C05", "C06", "C07", "C15", "C17"}

(* Strict conformance with the operational model: the recorded result is one of the results        *)
(* Apply allows for the recorded pre-state and arguments.  A mismatch is DRIFT (model and code      *)
(* disagree without a property being violated): reported, never a verdict.                          *)
\* (single-child inner nodes: only RemoveTips - the chain case of removeTip - and RemoveSingleNodes are modelled on them)
Conforms(ev, V, W) ==
  IF ~Modelled(ev) \/ (SingleNodes(V) # {} /\ ev.op \notin {"RemoveTips", "RemoveSingleNodes"}) \/ Cardinality(V.tips) < 3 THEN TRUE
  ELSE LET r == Apply(FromView(V), ev)
       IN  /\ r.ok
           /\ \E t \in r.res : IF RootExact(ev) THEN Canon(MView(t)) = Canon(W)
                                ELSE IF ev.op = "RemoveTips"
                                \* where the (pseudo-)root ends up, and hence whether it is bifurcating, depends
                                \* on the order in which the tips are met
                                \* (... and so does whether the last two clades end as the two branches of a rooted root, each
                                \* with its own support, or are joined: supports are compared where both carry one branch)
                                THEN LET a == UCanon(MView(t))
                                         b == UCanon(W)
                                     IN  a.len = b.len /\ \A s \in DOMAIN a.sup \cap DOMAIN b.sup : a.sup[s] = b.sup[s]
                                ELSE UCanon(MView(t)) = UCanon(W)
\* the call is modelled, the model applies to the recorded pre-state, and every result it allows is inside the domain of
\* the properties, while the recorded result is outside
ModelStaysInDomain(ev, V, W) ==
  /\ InDomain(V) /\ ~InDomain(W)
  /\ Modelled(ev) /\ SingleNodes(V) = {} /\ Cardinality(V.tips) >= 3
  /\ LET r == Apply(FromView(V), ev)
     IN  r.ok /\ ~r.refuse /\ r.res # {} /\ \A t \in r.res : InDomain(MView(t))
RefusalConforms(ev, V) ==
  IF ~Modelled(ev) \/ SingleNodes(V) # {} \/ Cardinality(V.tips) < 3 THEN TRUE ELSE Apply(FromView(V), ev).refuse
Note(kind, ev, cls) == PrintT("NOTE|" \o kind \o "|" \o ev.op \o "|" \o cls \o "|" \o ToString(l) \o "|" \o ev.case)

\* which property a crash inside an operation counts against
CrashProp(ev) ==
  CASE ev.op \in {"Reroot", "RerootFirst", "UnRoot", "RerootOutGroup", "RerootMidPoint",
                  "RotateInternalNodes", "RotateNeighbors", "SortNeighborsByTips"} -> "C05"
    [] ev.op = "RemoveTips" -> "C06"
    [] ev.op \in {"CollapseShortBranches", "CollapseLowSupport", "CollapseTopoDepth", "Resolve"} -> "C07"
    [] ev.op \in {"Clone", "SubTree", "GraftTreeOnTip", "Merge", "InsertIdenticalTips", "RemoveSingleNodes"} -> "C15"
    [] ev.op \in {"NNI", "NNIAll"} -> "C17"
    [] OTHER -> "C03"

-----------------------------------------------------------------------------

Init == l = 1 /\ cur = [a |-> NoTree, b |-> NoTree] /\ alive = FALSE /\ nfail = 0

Ev == Trace[l]

TraceReset ==
  /\ l <= Len(Trace) /\ Ev.ev = "reset"
  /\ LET T == Ev.post
         wf == WFBroken(T)
     IN  /\ IF wf # {} THEN PrintT(<<"HARNESS", "initial tree not well formed", l, wf>>) ELSE TRUE
         /\ cur' = [a |-> T, b |-> NoTree]
         /\ alive' = (wf = {})
         /\ LET f == IF wf = {} /\ On("C04") /\ InDomain(View(T)) THEN C04Fails(Ev, T, View(T)) ELSE {}
                g == IF wf = {} /\ On("C03") THEN C03Fails(Ev, T) ELSE {}
            IN  /\ Report("C04", Ev, "init", f)
                /\ Report("C03", Ev, "init", g)
                /\ nfail' = nfail + Cardinality(f) + Cardinality(g)
  /\ l' = l + 1

TraceOp ==
  /\ l <= Len(Trace) /\ Ev.ev = "op"
  /\ l' = l + 1
  /\ IF ~alive THEN UNCHANGED <<cur, alive, nfail>>
     ELSE IF Ev.panic
     THEN \* a crash inside an edit on a well-formed, in-domain tree
          /\ LET p == CrashProp(Ev) IN
             IF On(p) THEN Report(p, Ev, RootClass(View(cur.a)), {"NoCrash"}) /\ nfail' = nfail + 1
             ELSE nfail' = nfail
          /\ alive' = FALSE /\ UNCHANGED cur
     ELSE IF ~Ev.ok
     THEN \* an error ends the history without judgement (policies 1 and 10)
          /\ alive' = FALSE /\ UNCHANGED <<cur, nfail>>
          /\ (CONFORM /\ InDomain(View(cur.a)) /\ ~RefusalConforms(Ev, View(cur.a))
                => Note("DRIFT-REFUSAL", Ev, RootClass(View(cur.a))))
     ELSE LET T0 == cur.a
              T1 == Ev.post
              r  == StepFails(Ev, T0, T1)
              cls == RootClass(View(T0))
          IN  /\ cur' = [a |-> T1, b |-> IF Ev.obj2 = "b" THEN Ev.post2 ELSE IF Ev.obj2 = "g" THEN NoTree ELSE cur.b]
              /\ IF r[1] = "C03"
                 THEN \* the result is not a tree: C03, and also the property that states what this operation returns
                      \* (its statement presupposes a tree: "the tree induced on ...", "differs by exactly one split", ...)
                      LET p2 == CrashProp(Ev)
                          own == p2 # "C03" /\ On(p2)
                      IN  /\ (IF On("C03") THEN Report("C03", Ev, cls, r[2]) ELSE TRUE)
                          /\ (IF own THEN Report(p2, Ev, cls, {"ResultIsATree"}) ELSE TRUE)
                          /\ nfail' = nfail + (IF On("C03") THEN Cardinality(r[2]) ELSE 0) + (IF own THEN 1 ELSE 0)
                          /\ alive' = FALSE
                 ELSE IF r[1] = ""
                 THEN \* left the domain (fewer than 2 tips, root with a single neighbour, ...): not judged further -- unless
                      \* the operational model says that this call on this tree stays inside (e.g. UnRoot leaving the tree
                      \* rooted on a tip): then the result is judged as a result of C03 (text, enumerations), plus the fact
                      LET g == IF On("C03") /\ ModelStaysInDomain(Ev, View(T0), View(T1))
                               THEN C03Fails(Ev, T1) \cup {"ResultLeavesTheTreeDomain"} ELSE {}
                      IN  Report("C03", Ev, cls, g) /\ nfail' = nfail + Cardinality(g) /\ alive' = FALSE
                 ELSE /\ (CONFORM /\ ~Conforms(Ev, View(T0), View(T1)) => Note("DRIFT", Ev, cls))
                      /\ (On("C04") => Report("GROWTH", Ev, cls, CacheFails(Ev, T0, T1)))
                      /\ \A p \in PropIds : Report(p, Ev, cls, r[2][p])
                      /\ nfail' = nfail + MapThenSumSet(LAMBDA p : Cardinality(r[2][p]), PropIds)
                      /\ alive' = TRUE

\* observation of the twin object: it must not have changed since it was last seen (C15)
TraceObs ==
  /\ l <= Len(Trace) /\ Ev.ev = "obs"
  /\ l' = l + 1
  /\ IF ~alive \/ ~Has(cur.b) \/ ~On("C15") THEN UNCHANGED <<cur, alive, nfail>>
     ELSE LET f == Fail("TwinUnchanged", ~Ev.panic /\ Ev.post = cur.b)
          IN  /\ Report("C15", Ev, "twin", f)
              /\ nfail' = nfail + Cardinality(f)
              /\ UNCHANGED <<cur, alive>>

Next == TraceReset \/ TraceOp \/ TraceObs

Spec == Init /\ [][Next]_vars

\* every recorded line was consumed
Accepted ==
  /\ TLCGet("stats").diameter - 1 = Len(Trace)
  /\ PrintT(<<"ACCEPTED", Len(Trace), TLCGet("stats").diameter - 1>>)

=============================================================================
