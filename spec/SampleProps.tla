----------------------------- MODULE SampleProps -----------------------------
(***************************************************************************)
(* Layer P/T for C20: a recorded random selection of the real code, with    *)
(* the draws it made (hook verifDraw: range and value of every draw, in     *)
(* order), is replayed through the step function of the modelled machine    *)
(* (SamplingDef.Run).  If every range is the prescribed one and the outcome *)
(* is the machine's outcome for those draws, the code IS the machine on     *)
(* this run, and the machine is proved uniform by TLC (Sampling.tla).       *)
(***************************************************************************)
EXTENDS SamplingDef

FailS(name, ok) == IF ok THEN {} ELSE {name}

\* groups the flat list of logged draws into one entry per processed element
DrawsFor(algo, n, k, logged) ==
  CASE algo = "reservoir" ->
         [e \in 1..n |-> IF e <= k THEN [n |-> 0, v |-> 0]
                         ELSE IF e - k <= Len(logged) THEN logged[e - k] ELSE [n |-> -1, v |-> -1]]
    [] algo = "replace" ->
         [e \in 1..n |-> [n |-> [y \in 1..k |-> IF (e - 1) * k + y <= Len(logged) THEN logged[(e - 1) * k + y].n ELSE -1],
                          v |-> [y \in 1..k |-> IF (e - 1) * k + y <= Len(logged) THEN logged[(e - 1) * k + y].v ELSE -1]]]
    [] OTHER -> logged

ExpectedDraws(algo, n, k) ==
  CASE algo = "reservoir" -> IF n > k THEN n - k ELSE 0
    [] algo = "replace"   -> n * k
    [] algo = "rotate"    -> n
    [] algo = "utree"     -> n - 2
    [] algo = "rtree"     -> n - 2
    [] OTHER -> 0

\* args: algo, n, k;  res.draws: sequence of [n, v];  res.outcome: what the real code returned
\*   reservoir / replace: sequence of selected element numbers (output order), or a set when order is not observable
\*   rotate: sequence of original positions;  utree / rtree: sequence of clusters (each a sequence of tip numbers)
F_Draws(args, res) ==
  LET algo == args.algo
      r    == Run(algo, args.n, args.k, DrawsFor(algo, args.n, args.k, res.draws))
      got  == IF algo \in {"utree", "rtree"} THEN {SeqRangeS(res.outcome[x]) : x \in 1..Len(res.outcome)}
              ELSE IF args.asset THEN SeqRangeS(res.outcome) ELSE res.outcome
      exp  == IF algo \in {"utree", "rtree"} THEN SeqRangeS(r.s)
              ELSE IF args.asset THEN SeqRangeS(r.s) ELSE r.s
  IN  FailS("DrawCountAsModelled", Len(res.draws) = ExpectedDraws(algo, args.n, args.k))
      \cup FailS("DrawRangesAsModelled", r.ok)
      \cup FailS("OutcomeIsTheMachineOutcome", r.ok => got = exp)

\* ShuffleTips: names before, names after (same tip order), the permutation drawn
F_Shuffle(args, res) ==
  LET n == Len(res.before)
  IN  FailS("ShuffleAppliesThePermutation",
            /\ Len(res.perm) = n /\ Len(res.after) = n
            /\ {res.perm[x] : x \in 1..n} = 0..(n - 1)
            /\ \A x \in 1..n : res.after[x] = res.names[res.perm[x] + 1])
      \cup FailS("ShuffleKeepsTheNameSet", SeqRangeS(res.after) = SeqRangeS(res.before))

=============================================================================
