----------------------------- MODULE StatsProps -----------------------------
(***************************************************************************)
(* Layer P for the observers of `gotree stats` (summary, edges, nodes,      *)
(* tips, splits): what each printed table must be, as a function of the     *)
(* view of the input tree.                                                  *)
(*                                                                          *)
(* Part of it belongs to listed properties and is reported under them:      *)
(*   C03  the printed numbers of nodes, tips and branches are those of the  *)
(*        tree and agree (branches = nodes - 1); the node and tip tables     *)
(*        enumerate exactly the nodes and the tips;                         *)
(*   C04  the dumped bitset of every branch is the set of tips below it, in *)
(*        the printed tip order; the printed topological depth is the size  *)
(*        of the lighter side.                                              *)
(* The rest (sums, means, median, cherries, Colless, Sackin, depths, root   *)
(* depth, neighbour names, root-to-tip lengths) is GROWTH of the            *)
(* specification beyond the listed properties: predicates named G_... are   *)
(* reported as notes, never as violations of a listed property.             *)
(*                                                                          *)
(* Transcribed conventions of the code (not idealised):                     *)
(*   - node depth: rooted tree = fewest branches down to a descendant tip;  *)
(*     unrooted tree = fewest branches to any tip (breadth-first from all   *)
(*     tips); root depth is only computed for rooted trees (else -1);        *)
(*   - a cherry is an inner node with exactly three neighbours two of which *)
(*     are tips;                                                            *)
(*   - Colless on multifurcations: largest minus smallest child clade;      *)
(*   - an absent length makes sum and mean NaN, but counts as -1 in the     *)
(*     root-to-tip length of `stats tips` (DEVIATION, named RTTAbsent);      *)
(*   - mean / median support: NaN when a support is absent or there is no   *)
(*     inner branch.                                                        *)
(***************************************************************************)
EXTENDS CalcProps, SequencesExt

NaN4 == -99999999
LenU == 65536      \* lengths of the generated trees are multiples of 1/16  (= 65536 units of 2^-20)
SupU == 16384      \* supports are multiples of 1/64

GrowthPreds == {"G_Rooted", "G_SumLength", "G_MeanLength", "G_MeanSupport", "G_MedianSupport", "G_Cherries", "G_Colless",
                "G_Sackin", "G_EdgeRows", "G_EdgeIds", "G_NodeRows", "G_TipLengths", "G_TreeId", "G_DumpedTipOrder", "G_StatsTableLayout"}

TipsUnder(V, n)   == {t \in V.tips : n \in V.anc[t]}
DepthRooted(V, n) == MinOf({Cardinality(V.anc[t]) - Cardinality(V.anc[n]) : t \in TipsUnder(V, n)})
DepthAny(V, n)    == MinOf({Cardinality(PathNodes(V, n, t)) : t \in V.tips})
NodeDepth(V, n)   == IF IsRooted(V) THEN DepthRooted(V, n) ELSE DepthAny(V, n)
RootDepth(V, n)   == IF IsRooted(V) THEN Cardinality(V.anc[n]) - 1 ELSE -1

InnerBr(V) == NonRoot(V) \ V.tips
Cherries(V) == Cardinality({n \in Inner(V) : V.deg[n] = 3 /\ Cardinality(Children(V, n) \cap V.tips) = 2})
Colless(V) ==
  SumOver(Inner(V), LAMBDA n : LET sz == {<<c, Cardinality(TipsUnder(V, c))>> : c \in Children(V, n)}
                                   ns == {p[2] : p \in sz}
                               IN  IF ns = {} THEN 0 ELSE (CHOOSE x \in ns : \A y \in ns : x >= y) - MinOf(ns))
Sackin(V) == SumOver(V.tips, LAMBDA t : Cardinality(V.anc[t]) - 1)

\* sorted sequence of the supports of the inner branches (with repetitions)
SortedSups(V) ==
  LET nodes == SetToSeq(InnerBr(V))
      vals  == [i \in 1..Len(nodes) |-> BrOf(V, nodes[i]).sup]
  IN  SortSeq(vals, LAMBDA a, b : a < b)

F_StatsSummary(V, id, res) ==
  IF "unparsed" \in DOMAIN res THEN {"G_StatsTableLayout"} ELSE
  LET E      == Cardinality(NonRoot(V))
      I      == InnerBr(V)
      nolen  == \E n \in NonRoot(V) : BrOf(V, n).len = NIL
      nosup  == I = {} \/ \E n \in I : BrOf(V, n).sup = NIL
      sumL   == SumOver(NonRoot(V), LAMBDA n : BrOf(V, n).len \div LenU)
      sumS   == SumOver(I, LAMBDA n : BrOf(V, n).sup \div SupU)
      ss     == SortedSups(V)
      k      == Len(ss)
      mid    == (k \div 2) + 1
  IN  Fail("StatsCountsAgree", /\ res.nodes = Cardinality(V.nodes)
                               /\ res.tips = Cardinality(V.tips)
                               /\ res.edges = E
                               /\ res.edges = res.nodes - 1)
      \cup Fail("G_TreeId", res.id = id)
      \cup Fail("G_Rooted", res.rooted = IsRooted(V))
      \cup Fail("G_SumLength",  IF nolen THEN res.sum4 = NaN4 ELSE QNear(res.sum4, sumL, 16))
      \cup Fail("G_MeanLength", IF nolen THEN res.mean4 = NaN4 ELSE QNear(res.mean4, sumL, 16 * E))
      \cup Fail("G_MeanSupport", IF nosup THEN res.msup4 = NaN4 ELSE QNear(res.msup4, sumS, 64 * Cardinality(I)))
      \cup Fail("G_MedianSupport",
                IF nosup THEN res.medsup4 = NaN4
                ELSE IF k % 2 = 1 THEN QNear(res.medsup4, ss[mid] \div SupU, 64)
                     ELSE QNear(res.medsup4, (ss[mid] + ss[mid - 1]) \div SupU, 128))
      \cup Fail("G_Cherries", res.cherries = Cherries(V))
      \cup Fail("G_Colless", res.colless = (IF IsRooted(V) THEN Colless(V) ELSE -1))
      \cup Fail("G_Sackin",  res.sackin  = (IF IsRooted(V) THEN Sackin(V) ELSE -1))

\* rows: [brid, len, sup, term, depth, topo, rdepth, rname, lname]
F_StatsEdges(V, id, res) ==
  IF "unparsed" \in DOMAIN res THEN {"G_StatsTableLayout"} ELSE
  LET rows == res.rows
      k    == Len(rows)
      D    == TLCEval([n \in V.nodes |-> NodeDepth(V, n)])
      exp(n) == [len |-> BrOf(V, n).len, sup |-> BrOf(V, n).sup, term |-> n \in V.tips,
                 depth |-> IF D[n] < D[V.par[n]] THEN D[n] ELSE D[V.par[n]],
                 topo |-> TopoDepthOf(V, n), rdepth |-> RootDepth(V, n), rname |-> V.nm[n], lname |-> V.nm[V.par[n]]]
      got(i) == [len |-> rows[i].len, sup |-> rows[i].sup, term |-> rows[i].term, depth |-> rows[i].depth,
                 topo |-> rows[i].topo, rdepth |-> rows[i].rdepth, rname |-> rows[i].rname, lname |-> rows[i].lname]
      key(r) == <<r.term, r.rname, r.topo>>
  IN  Fail("StatsTopoDepth", BagOfSet(1..k, LAMBDA i : key(got(i))) = BagOfSet(NonRoot(V), LAMBDA n : key(exp(n))))
      \cup Fail("G_EdgeRows", BagOfSet(1..k, got) = BagOfSet(NonRoot(V), exp))
      \cup Fail("G_EdgeIds", \A i \in 1..k : rows[i].brid = i - 1 /\ rows[i].id = id)

\* header: the printed tip names; rows: [id, blen, ones (names whose bit is set)]
F_StatsSplits(T, V, id, res) ==
  IF "unparsed" \in DOMAIN res THEN {"G_StatsTableLayout"} ELSE
  LET k == Len(res.rows)
      N == Cardinality(V.names)
  IN  Fail("G_DumpedTipOrder", res.header = Reverse(T.rank))
      \cup Fail("DumpedBitsetsAreTheSplits",
                /\ \A i \in 1..k : res.rows[i].blen = N /\ NoDupSeq(res.rows[i].ones)
                /\ BagOfSet(1..k, LAMBDA i : SeqRange(res.rows[i].ones)) = BagOfSet(NonRoot(V), LAMBDA n : V.below[n]))
      \cup Fail("G_TreeId", \A i \in 1..k : res.rows[i].id = id)

\* rows: [nid, nneigh, name, depth, up, downs]
F_StatsNodes(V, id, res) ==
  IF "unparsed" \in DOMAIN res THEN {"G_StatsTableLayout"} ELSE
  LET rows == res.rows
      k    == Len(rows)
      exp(n) == [nneigh |-> V.deg[n], name |-> V.nm[n], depth |-> NodeDepth(V, n),
                 up |-> IF n = V.root THEN "-" ELSE V.nm[V.par[n]],
                 downs |-> {V.nm[c] : c \in Children(V, n)} \ {""}]
      got(i) == [nneigh |-> rows[i].nneigh, name |-> rows[i].name, depth |-> rows[i].depth, up |-> rows[i].up,
                 downs |-> SeqRange(rows[i].downs)]
  IN  Fail("StatsNodeTableIsTheNodes",
           /\ k = Cardinality(V.nodes)
           /\ BagOfSet(1..k, LAMBDA i : <<rows[i].nneigh, rows[i].name>>) = BagOfSet(V.nodes, LAMBDA n : <<V.deg[n], V.nm[n]>>))
      \cup Fail("G_NodeRows", BagOfSet(1..k, got) = BagOfSet(V.nodes, exp) /\ \A i \in 1..k : rows[i].nid = i - 1 /\ rows[i].id = id)

\* rows: [nneigh, name, ext4, rtt4]; an absent length is printed as -1 and counts as -1 in the root-to-tip sum (RTTAbsent)
RTT16(V, t) == SumOver(V.anc[t] \ {V.root}, LAMBDA n : IF BrOf(V, n).len = NIL THEN -16 ELSE BrOf(V, n).len \div LenU)
F_StatsTips(V, id, res) ==
  IF "unparsed" \in DOMAIN res THEN {"G_StatsTableLayout"} ELSE
  LET rows == res.rows
      k    == Len(rows)
      tb   == TLCEval(TipByName(V))
  IN  Fail("StatsTipTableIsTheTips",
           /\ k = Cardinality(V.tips)
           /\ {rows[i].name : i \in 1..k} = V.names
           /\ \A i \in 1..k : rows[i].nneigh = 1)
      \cup Fail("G_TipLengths",
                \A i \in 1..k : rows[i].name \in V.names =>
                   LET t == tb[rows[i].name]
                   IN  /\ QNear(rows[i].ext4, IF BrOf(V, t).len = NIL THEN -16 ELSE BrOf(V, t).len \div LenU, 16)
                       /\ QNear(rows[i].rtt4, RTT16(V, t), 16))
      \cup Fail("G_TreeId", \A i \in 1..k : rows[i].id = id)

=============================================================================
