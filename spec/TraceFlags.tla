----------------------------- MODULE TraceFlags -----------------------------
(***************************************************************************)
(* Layer T for C19: the registry of the real CLI after package              *)
(* initialisation (every local and persistent option of every command:      *)
(* documented default, value currently held by its storage cell, cell       *)
(* address), and for every option the behaviour of the command with the     *)
(* option omitted and with the option given as the documented default.      *)
(* A violation is a behavioural difference; a static mismatch the command   *)
(* compensates for is reported as DRIFT only.                               *)
(***************************************************************************)
EXTENDS Integers, Sequences, FiniteSets, TLC, Json

Trace == ndJsonDeserialize("trace.ndjson")

VARIABLES l, nfail
vars == <<l, nfail>>

Rep(prop, pred, cmd, flag, case) ==
  PrintT("FAIL|" \o prop \o "|" \o pred \o "|" \o cmd \o "|" \o flag \o "|" \o ToString(l) \o "|" \o case)
Note(kind, cmd, flag, case) == PrintT("NOTE|" \o kind \o "|" \o cmd \o "|" \o flag \o "|" \o ToString(l) \o "|" \o case)

\* the static condition of Flags.tla on the real table
Agree(tb) == \A i, j \in 1..Len(tb) : tb[i].cell = tb[j].cell => tb[i].def = tb[j].def
AllCurrentAreDocumented(tb) == \A i \in 1..Len(tb) : tb[i].cur = tb[i].def

Init == l = 1 /\ nfail = 0

Step ==
  /\ l <= Len(Trace)
  /\ l' = l + 1
  /\ LET ev == Trace[l]
     IN  CASE ev.kind = "FlagTable" ->
                \* Flags.tla: (every effective default is the documented one) <=> (shared cells agree); an
                \* observation that contradicts the theorem means the registry is not what the model describes
                /\ (AllCurrentAreDocumented(ev.table) # Agree(ev.table) => Note("DRIFT-REGISTRY-MODEL", "all", "all", ev.case))
                /\ nfail' = nfail
           [] ev.kind = "FlagRun" ->
                IF ev.ran /\ ~ev.same
                THEN Rep("C19", "OmittedOptionMeansDocumentedDefault", ev.cmd, ev.flag, ev.case) /\ nfail' = nfail + 1
                ELSE /\ (ev.cur # ev.def => Note("DRIFT-COMPENSATED-DEFAULT", ev.cmd, ev.flag, ev.case))
                     /\ nfail' = nfail
           [] OTHER -> nfail' = nfail

Spec == Init /\ [][Step]_vars

Accepted ==
  /\ TLCGet("stats").diameter - 1 = Len(Trace)
  /\ PrintT(<<"ACCEPTED", Len(Trace), TLCGet("stats").diameter - 1>>)

=============================================================================
