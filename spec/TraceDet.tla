------------------------------ MODULE TraceDet ------------------------------
(***************************************************************************)
(* Layer T for C18: recorded repeated runs of command templates, each in a  *)
(* new process.  `seen` maps (template, seed, thread class) to the output   *)
(* first observed; every later run with the same key must show the same     *)
(* output - byte for byte with one thread, as a bag of records (lines) with *)
(* several threads.                                                         *)
(***************************************************************************)
EXTENDS Integers, Sequences, FiniteSets, TLC, Json

Trace == ndJsonDeserialize("trace.ndjson")

VARIABLES l, seen, nfail
vars == <<l, seen, nfail>>

Init == l = 1 /\ seen = [k \in {} |-> ""] /\ nfail = 0

Step ==
  /\ l <= Len(Trace)
  /\ l' = l + 1
  /\ LET ev  == Trace[l]
         out == IF ev.threads = 1 THEN ev.exact ELSE ev.records
     IN  IF ev.kind # "DetRun" THEN UNCHANGED <<seen, nfail>>
         ELSE IF ev.hung
         THEN /\ PrintT("FAIL|C18|Terminates|" \o ev.cmd \o "|threads" \o ToString(ev.threads) \o "|" \o ToString(l) \o "|" \o ev.case)
              /\ nfail' = nfail + 1 /\ UNCHANGED seen
         ELSE IF ev.key \in DOMAIN seen
         THEN /\ UNCHANGED seen
              /\ IF seen[ev.key] = out THEN nfail' = nfail
                 ELSE /\ PrintT("FAIL|C18|SameInputSameOutput|" \o ev.cmd \o "|threads" \o ToString(ev.threads) \o "|" \o ToString(l) \o "|" \o ev.case)
                      /\ nfail' = nfail + 1
         ELSE seen' = seen @@ (ev.key :> out) /\ nfail' = nfail

Spec == Init /\ [][Step]_vars

Accepted ==
  /\ TLCGet("stats").diameter - 1 = Len(Trace)
  /\ PrintT(<<"ACCEPTED", Len(Trace), TLCGet("stats").diameter - 1>>)

=============================================================================
