------------------------------ MODULE NNIModel ------------------------------
(***************************************************************************)
(* Layer M for the NNI neighbourhood (C17): for every binary tree of the    *)
(* bound, under every rooting at an inner node, the set of rearrangements   *)
(* the generator proposes (TreeOpsDef.NNISites / NNIAround: around every    *)
(* branch whose two ends have three neighbours, one child of the lower end  *)
(* exchanged with one neighbour of the upper end, two ways).                *)
(* Design level: on unrooted trees there are exactly two per inner branch,  *)
(* all neighbours are pairwise distinct, each differs from the tree by      *)
(* exactly one split, and applying the same exchange again restores the     *)
(* tree.  Every tree x rooting is printed as a case: the harness builds it, *)
(* optionally re-roots and rotates it (so that a node's parent sits at any  *)
(* position of its neighbour list), enumerates the real neighbourhood with  *)
(* apply / undo in enumeration order, and TraceEdit judges it.              *)
(***************************************************************************)
EXTENDS TreeEnum, Json

CONSTANTS NTips, Emit

VARIABLES t, root2
vars == <<t, root2>>

BinaryPool == {x \in TreesOf(NTips, NTips, {1}) : Binary(MView(x)) /\ DegM(x, x.root) = 3}

Init == t \in BinaryPool /\ root2 \in {n \in t.nodes : DegM(t, n) = 3}
Next == UNCHANGED vars
Spec == Init /\ [][Next]_vars

U == RerootM(t, root2)
Nbs == UNION {NNIAround(U, x) : x \in NNISites(U)}
S0 == NTSplits(MView(U))

TwoPerInnerBranch == Cardinality(NNISites(U)) = Cardinality(S0) /\ \A x \in NNISites(U) : Cardinality(NNIAround(U, x)) = 2
PairwiseDistinct == Cardinality({NTSplits(MView(n)) : n \in Nbs}) = 2 * Cardinality(S0)
OneSplitEachWay == \A n \in Nbs : /\ Cardinality(S0 \ NTSplits(MView(n))) = 1
                                  /\ Cardinality(NTSplits(MView(n)) \ S0) = 1
                                  /\ MView(n).names = MView(U).names

EmitCase ==
  Emit => PrintT("CASE|" \o ToJson([pre |-> TreeJson(t), op |-> "NNIAll",
                                    args |-> [preroot |-> root2, prerotate |-> (root2 % 2 = 0)], depth |-> 0]))

=============================================================================
