------------------------------ MODULE TwoTrees ------------------------------
(***************************************************************************)
(* Layer M for the operations of C15 that involve a second tree: grafting a *)
(* tree in place of a tip, merging two rooted trees under a new root,       *)
(* extracting the subtree below an inner node, cloning.                     *)
(*                                                                          *)
(* State: the tree m, a second tree g with other tip names, the result.     *)
(* Each operation is a function on model trees (the pointer splice of       *)
(* GraftTreeOnTip = the graft's root takes the tip's place with the tip's   *)
(* branch; Merge = a new root above the two old roots; SubTree = the nodes  *)
(* below n with n as root).  Design level: the C15 predicates (pre-existing *)
(* path lengths kept, exactly the requested tips, the grafted / merged      *)
(* tree's own distances kept, subtree = restriction) hold for every tree of *)
(* the bound, every tip / inner node and every second tree.  Every          *)
(* transition is printed as a case for the harness (replay on the real      *)
(* GraftTreeOnTip / Merge / SubTree / Clone).                               *)
(***************************************************************************)
EXTENDS TreeEnum, Json

CONSTANTS MaxTips, Pats, Emit

VARIABLES m, done
vars == <<m, done>>

\* second trees: a cherry and a three-tip rooted tree, both with lengths; and an unrooted star
G(names, shape) ==
  LET k == Len(names)
  IN  CASE shape = "cherry" ->
             [nodes |-> 101..103, root |-> 103, par |-> (101 :> 103) @@ (102 :> 103) @@ (103 :> 0),
              nm |-> (101 :> names[1]) @@ (102 :> names[2]) @@ (103 :> ""),
              len |-> (101 :> 65536) @@ (102 :> 196608) @@ (103 :> NIL),
              sup |-> (101 :> NIL) @@ (102 :> NIL) @@ (103 :> NIL), pv |-> (101 :> NIL) @@ (102 :> NIL) @@ (103 :> NIL)]
        [] shape = "rooted3" ->
             [nodes |-> 101..105, root |-> 105, par |-> (101 :> 104) @@ (102 :> 104) @@ (103 :> 105) @@ (104 :> 105) @@ (105 :> 0),
              nm |-> (101 :> names[1]) @@ (102 :> names[2]) @@ (103 :> names[3]) @@ (104 :> "") @@ (105 :> ""),
              len |-> (101 :> 65536) @@ (102 :> 131072) @@ (103 :> 327680) @@ (104 :> 0) @@ (105 :> NIL),
              sup |-> [n \in 101..105 |-> IF n = 104 THEN 786432 ELSE NIL], pv |-> [n \in 101..105 |-> NIL]]
        [] OTHER ->
             [nodes |-> 101..104, root |-> 104, par |-> (101 :> 104) @@ (102 :> 104) @@ (103 :> 104) @@ (104 :> 0),
              nm |-> (101 :> names[1]) @@ (102 :> names[2]) @@ (103 :> names[3]) @@ (104 :> ""),
              len |-> (101 :> 65536) @@ (102 :> 65536) @@ (103 :> NIL) @@ (104 :> NIL),
              sup |-> [n \in 101..104 |-> NIL], pv |-> [n \in 101..104 |-> NIL]]
Seconds == {G(<<"u1", "u2", "u3">>, sh) : sh \in {"cherry", "rooted3", "star3"}}

Union(a, b, f(_)) == [n \in a.nodes \cup b.nodes |-> f(n)]
\* the graft's root takes the place of tip t, with t's branch
GraftM(a, t, g) ==
  LET N == (a.nodes \ {t}) \cup g.nodes
      pick(fa, fg, n) == IF n \in g.nodes THEN fg[n] ELSE fa[n]
  IN  [nodes |-> N, root |-> a.root,
       par |-> [n \in N |-> IF n = g.root THEN a.par[t] ELSE pick(a.par, g.par, n)],
       nm  |-> [n \in N |-> pick(a.nm, g.nm, n)],
       len |-> [n \in N |-> IF n = g.root THEN a.len[t] ELSE pick(a.len, g.len, n)],
       sup |-> [n \in N |-> IF n = g.root THEN a.sup[t] ELSE pick(a.sup, g.sup, n)],
       pv  |-> [n \in N |-> IF n = g.root THEN a.pv[t] ELSE pick(a.pv, g.pv, n)]]
\* a new root above the two old roots
MergeM(a, g) ==
  LET r == 200
      N == a.nodes \cup g.nodes \cup {r}
      pick(fa, fg, n) == IF n \in g.nodes THEN fg[n] ELSE fa[n]
  IN  [nodes |-> N, root |-> r,
       par |-> [n \in N |-> IF n = r THEN 0 ELSE IF n \in {a.root, g.root} THEN r ELSE pick(a.par, g.par, n)],
       nm  |-> [n \in N |-> IF n = r THEN "" ELSE pick(a.nm, g.nm, n)],
       len |-> [n \in N |-> IF n = r THEN NIL ELSE pick(a.len, g.len, n)],
       sup |-> [n \in N |-> IF n = r THEN NIL ELSE pick(a.sup, g.sup, n)],
       pv  |-> [n \in N |-> IF n = r THEN NIL ELSE pick(a.pv, g.pv, n)]]
SubTreeM(a, n) ==
  LET V == MView(a)
      D == {x \in a.nodes : n \in V.anc[x]}
  IN  MakeRoot(Keep(a, D), n)

Ops ==
  LET V == MView(m)
  IN  {[op |-> "GraftTreeOnTip", tip |-> V.nm[t], node |-> t, g |-> g] : t \in V.tips, g \in Seconds}
      \cup (IF IsRooted(V) THEN {[op |-> "Merge", tip |-> "", node |-> 0, g |-> g] : g \in {x \in Seconds : DegM(x, x.root) = 2}} ELSE {})
      \cup {[op |-> "SubTree", tip |-> "", node |-> n, g |-> CHOOSE x \in Seconds : TRUE] : n \in {x \in m.nodes \ {m.root} : DegM(m, x) >= 3}}
      \cup {[op |-> "Clone", tip |-> "", node |-> 0, g |-> CHOOSE x \in Seconds : TRUE]}

Result(o) ==
  CASE o.op = "GraftTreeOnTip" -> GraftM(m, o.node, o.g)
    [] o.op = "Merge"          -> MergeM(m, o.g)
    [] o.op = "SubTree"        -> SubTreeM(m, o.node)
    [] OTHER                   -> m

Fails(o) ==
  LET V == MView(m)
      W == MView(Result(o))
  IN  CASE o.op = "GraftTreeOnTip" -> F_GraftTree(V, W, MView(o.g), o.tip)
        [] o.op = "Merge"          -> F_Merge(V, W, MView(o.g))
        [] o.op = "SubTree"        -> F_SubTree(V, W, o.node)
        [] OTHER                   -> Fail("CloneIsExactCopy", Canon(W) = Canon(V))

Init == m \in TreesOf(3, MaxTips, Pats) /\ done = FALSE
Next == /\ ~done /\ done' = TRUE /\ UNCHANGED m
Spec == Init /\ [][Next]_vars

\* design level: every operation satisfies the C15 predicates on the model
LocalEditsKeepTheRest == \A o \in Ops : Fails(o) = {}

EmitCases ==
  (Emit /\ ~done) =>
     \A o \in Ops : PrintT("CASE|" \o ToJson([pre |-> TreeJson(m), op |-> o.op,
                                               args |-> [tip |-> o.tip, node |-> o.node, g |-> TreeJson(o.g)], depth |-> 0]))

=============================================================================
