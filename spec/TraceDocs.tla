----------------------------- MODULE TraceDocs -----------------------------
(***************************************************************************)
(* Layer T for the readers and the format conversions (C02, C13).           *)
(*  ReadBytes  a byte string given to a reader entry point (in an isolated  *)
(*             worker process with a watchdog): outcome, number of trees,   *)
(*             identifiers, and whether every delivered tree could be       *)
(*             traversed, indexed and written                               *)
(*  Split      lines given to the real ReadUntilSemiColon loop: the groups  *)
(*             returned must be the groups of SplitterDef                   *)
(*  Convert    a list of trees written in one format and read back through  *)
(*             the multi-tree and the first-tree entry points               *)
(***************************************************************************)
EXTENDS SplitterDef, Json

CONSTANT PROPS

Trace == ndJsonDeserialize("trace.ndjson")

VARIABLES l, nfail
vars == <<l, nfail>>

Rep(prop, pred, ev) ==
  PrintT("FAIL|" \o prop \o "|" \o pred \o "|" \o ev.kind \o "|" \o ev.cls \o "|" \o ToString(l) \o "|" \o ev.case)

\* C13: same rooted ordered tree: shape, names, lengths, supports (p-values where the format carries them)
SameNode(a, b, pv) ==
  /\ a.par = b.par /\ a.ch = b.ch /\ a.nm = b.nm /\ a.len = b.len /\ a.sup = b.sup
  /\ (pv => a.pv = b.pv)
SameTreeC13(A, B, pv) == Len(A) = Len(B) /\ \A i \in 1..Len(A) : SameNode(A[i], B[i], pv)

ConvertFails(ev) ==
  LET k == Len(ev.orig)
  IN  IF ev.panic THEN {"NoCrash"}
      ELSE IF ev.hang THEN {"Terminates"}
      ELSE (IF ev.multierr THEN {"EveryTreeDeliveredOrError"}      \* well-formed input: no error expected
            ELSE (IF Len(ev.got) # k THEN {"NoTreeSkipped"} ELSE {})
                 \cup (IF ev.ids # [i \in 1..Len(ev.ids) |-> i - 1] THEN {"ConsecutiveIdentifiers"} ELSE {})
                 \cup (IF Len(ev.got) = k /\ \E i \in 1..k : ~SameTreeC13(ev.orig[i], ev.got[i], ev.pv)
                       THEN {"ConversionPreservesTheTree"} ELSE {})
                 \cup (IF k >= 1 /\ (~ev.firstok \/ (Len(ev.got) >= 1 /\ ~SameTreeC13(ev.first, ev.got[1], TRUE)))
                       THEN {"FirstTreeIsFirstOfMulti"} ELSE {}))

Judge(ev) ==
  CASE ev.kind = "ReadBytes" ->
         {<<"C02", p>> : p \in (IF ev.outcome = "panic" THEN {"NoCrash"} ELSE {})
                               \cup (IF ev.outcome = "hang" THEN {"Terminates"} ELSE {})
                               \cup (IF ev.postcrash THEN {"DeliveredTreeUsable"} ELSE {})}
         \cup {<<"C13", p>> : p \in (IF ev.outcome = "ok" /\ ~ev.idsok THEN {"ConsecutiveIdentifiers"} ELSE {})}
         \* a well-formed document of the grammar (NexusDocs base documents) is accepted with all its trees
         \cup {<<"C13", p>> : p \in (IF "expect" \in DOMAIN ev /\ ev.expect >= 0 /\ ev.outcome \in {"ok", "err"}
                                     THEN (IF ev.entry = "multi"
                                           THEN (IF ev.outcome = "ok" /\ ev.ntrees = ev.expect THEN {} ELSE {"WellFormedDocumentDeliversItsTrees"})
                                           ELSE (IF (ev.outcome = "ok") = (ev.expect >= 1) THEN {} ELSE {"FirstTreeOfWellFormedDocument"}))
                                     ELSE {})}
    [] ev.kind = "Split" ->
         IF ev.panic THEN {<<"C02", "NoCrash">>, <<"C13", "NoCrash">>}
         ELSE IF ev.hang THEN {<<"C02", "Terminates">>}
         ELSE IF ev.groups # Groups(ev.lines) THEN {<<"C13", "GroupsAreTheModelGroups">>} ELSE {}
    [] ev.kind = "Convert" -> {<<"C13", p>> : p \in ConvertFails(ev)}
    [] OTHER -> {}

Init == l = 1 /\ nfail = 0
TraceStep ==
  /\ l <= Len(Trace) /\ l' = l + 1
  /\ LET ev == Trace[l]
         f  == {x \in Judge(ev) : x[1] \in PROPS}
     IN  /\ \A x \in f : Rep(x[1], x[2], ev)
         /\ nfail' = nfail + Cardinality(f)
Spec == Init /\ [][TraceStep]_vars

Accepted ==
  /\ TLCGet("stats").diameter - 1 = Len(Trace)
  /\ PrintT(<<"ACCEPTED", Len(Trace), TLCGet("stats").diameter - 1>>)

=============================================================================
