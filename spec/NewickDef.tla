----------------------------- MODULE NewickDef -----------------------------
(***************************************************************************)
(* Layer M (definitions) for the Newick writer and parser (C01, C02, C13).  *)
(*                                                                          *)
(* A decorated ordered tree D is a sequence of nodes                        *)
(*   [par, ch (children, text order), nm, cm (node comments),               *)
(*    len, sup, pv (value symbols or NIL), ecm (branch comments)]           *)
(* node 1 being the root (par = 0).  Numeric values are opaque SYMBOLS      *)
(* (small integers): the harness instantiates them with hard float64 bit    *)
(* patterns and recognises them bit-exactly, so decimal formatting is not   *)
(* modelled.                                                                *)
(*                                                                          *)
(* Tokens, as the parser sees them after its lexer:                         *)
(*   "(" ")" "," ";" "]" "eof"      punctuation / end                       *)
(*   [k |-> "w", tx, num, v, v2]    a word: tx its text symbol, num = 1     *)
(*       when it reads as one number (value symbol v), num = 2 when it      *)
(*       reads as number/number (v, v2), num = 0 otherwise                  *)
(*   [k |-> "len", ok, v]           ":" followed by a numeric word (ok) or  *)
(*                                  by anything else (~ok)                  *)
(*   [k |-> "cm", ok, tx]           "[...]" complete (ok) or unterminated   *)
(*                                                                          *)
(* Write(D): the token sequence Tree.Newick emits.                          *)
(* ParseStep(st, tok): one iteration of the parser's loop (parseIter and    *)
(* the prologue/epilogue of Parse), transcribed case by case.               *)
(***************************************************************************)
EXTENDS Integers, Sequences, FiniteSets, SequencesExt, TLC

NILV == -1

P(k) == [k |-> k]
Word(tx, num, v, v2) == [k |-> "w", tx |-> tx, num |-> num, v |-> v, v2 |-> v2]
LenTok(ok, v) == [k |-> "len", ok |-> ok, v |-> v]
CmTok(ok, tx) == [k |-> "cm", ok |-> ok, tx |-> tx]

NewNode(par) == [par |-> par, ch |-> <<>>, nm |-> "", cm |-> <<>>, len |-> NILV, sup |-> NILV, pv |-> NILV, ecm |-> <<>>]

-----------------------------------------------------------------------------
(* the writer                                                               *)

CmToks(s) == [i \in 1..Len(s) |-> CmTok(TRUE, s[i])]

RECURSIVE WriteNode(_, _)
\* subtree of node n, then its name (Node.Newick)
WriteNode(D, n) ==
  LET nd   == D[n]
      kids == nd.ch
      one(c) == WriteNode(D, c)
                \o (IF D[c].sup # NILV /\ D[c].nm = ""
                    THEN <<Word("", IF D[c].pv # NILV THEN 2 ELSE 1, D[c].sup, D[c].pv)>> ELSE <<>>)
                \o CmToks(D[c].cm)
                \o (IF D[c].len # NILV THEN <<LenTok(TRUE, D[c].len)>> ELSE <<>>)
                \o CmToks(D[c].ecm)
      RECURSIVE all(_)
      all(i) == IF i > Len(kids) THEN <<>> ELSE (IF i > 1 THEN <<P(",")>> ELSE <<>>) \o one(kids[i]) \o all(i + 1)
      \* a node with more than one neighbour is written with parentheses
      deg == Len(kids) + (IF nd.par = 0 THEN 0 ELSE 1)
  IN  (IF Len(kids) > 0 THEN (IF deg > 1 THEN <<P("(")>> ELSE <<>>) \o all(1) \o (IF deg > 1 THEN <<P(")")>> ELSE <<>>) ELSE <<>>)
      \o (IF nd.nm # "" THEN <<Word(nd.nm, 0, NILV, NILV)>> ELSE <<>>)

Write(D) == WriteNode(D, 1) \o CmToks(D[1].cm) \o <<P(";")>>

-----------------------------------------------------------------------------
(* the parser                                                               *)

\* st: [phase, N, stack, cur, prev, level]
\*   phase: "pre" (before the first token), "pre2" (a leading comment was read), "run", "ok", "err"
\*   cur = 0 : no current node;  the branch of cur is "nil" exactly when cur is the root
\*   stale: the parser's error variable holds the failure of an ATTEMPT (a label "x/y" after ")" tried as support/p-value
\*          and found not to be two numbers): the label becomes a name, but the variable is only overwritten by the next
\*          step that assigns it (")", ",", a comment, a length below the root, a numeric label) and is what ";" returns.
\*          Only reachable with a branch at level 0, i.e. on malformed text; transcribed so that model and code agree there.
InitState == [phase |-> "pre", N |-> <<>>, stack |-> <<>>, cur |-> 0, prev |-> "none", level |-> 0, stale |-> FALSE]

\* words of the model alphabet that split in two parts at "/" without being number/number
TwoPartWords == {"0.25/b"}
TwoPart(tok) == tok.k = "w" /\ tok.num = 0 /\ tok.tx \in TwoPartWords

Err(st) == [st EXCEPT !.phase = "err"]
HasEdge(st) == st.cur # 0 /\ st.N[st.cur].par # 0
HeadOf(stk) == IF Len(stk) = 0 THEN 0 ELSE stk[Len(stk)]

AddChild(st, name) ==
  LET id == Len(st.N) + 1
      N1 == Append([st.N EXCEPT ![st.cur].ch = Append(@, id)], [NewNode(st.cur) EXCEPT !.nm = name])
  IN  [st EXCEPT !.N = N1, !.stack = Append(@, id), !.cur = id]

RunStep(st, tok) ==
  CASE tok.k = "(" ->
         IF st.cur = 0
         THEN IF st.level > 0 THEN Err(st)
              ELSE [st EXCEPT !.N = <<NewNode(0)>>, !.stack = <<1>>, !.cur = 1, !.level = @ + 1, !.prev = "("]
         ELSE IF st.level = 0 THEN Err(st)
              ELSE [AddChild(st, "") EXCEPT !.level = @ + 1, !.prev = "("]
    [] tok.k = ")" ->
         IF Len(st.stack) = 0 THEN Err(st)
         ELSE LET s2 == SubSeq(st.stack, 1, Len(st.stack) - 1)
              IN  [st EXCEPT !.stack = s2, !.cur = HeadOf(s2), !.level = @ - 1, !.prev = ")", !.stale = FALSE]
    [] tok.k = "cm" ->
         IF ~tok.ok THEN Err(st)
         ELSE IF st.prev = ":" /\ HasEdge(st) THEN [st EXCEPT !.N[st.cur].ecm = Append(@, tok.tx), !.prev = "]", !.stale = FALSE]
         ELSE IF st.prev = ":" /\ st.cur # 0 THEN [st EXCEPT !.N[st.cur].cm = Append(@, tok.tx), !.prev = "]", !.stale = FALSE]
         ELSE IF st.prev \in {")", "w", "]"} /\ st.cur # 0 THEN [st EXCEPT !.N[st.cur].cm = Append(@, tok.tx), !.prev = "]", !.stale = FALSE]
         ELSE Err(st)
    [] tok.k = "]" -> Err(st)
    [] tok.k = "len" ->
         IF ~tok.ok THEN Err(st)
         ELSE IF st.cur # 0 /\ st.level # 0
              THEN IF ~HasEdge(st) \/ st.N[st.cur].len # NILV THEN Err(st)
                   ELSE [st EXCEPT !.N[st.cur].len = tok.v, !.prev = ":", !.stale = FALSE]
              ELSE IF st.level = 0 THEN [st EXCEPT !.prev = ":"]      \* a length on the root is ignored
              ELSE Err(st)
    [] tok.k = "," ->
         IF Len(st.stack) = 0 THEN Err(st)
         ELSE LET s2 == SubSeq(st.stack, 1, Len(st.stack) - 1)
              IN  [st EXCEPT !.stack = s2, !.cur = HeadOf(s2), !.prev = ",", !.stale = FALSE]
    [] tok.k = "w" ->
         IF st.prev = ")"
         THEN \* support, support/p-value or name of the node just closed; prev stays ")"
              IF tok.num = 1
              THEN IF st.level = 0 \/ ~HasEdge(st) THEN st ELSE [st EXCEPT !.N[st.cur].sup = tok.v, !.stale = FALSE]
              ELSE IF tok.num = 2 /\ HasEdge(st) THEN [st EXCEPT !.N[st.cur].sup = tok.v, !.N[st.cur].pv = tok.v2, !.stale = FALSE]
              ELSE IF st.cur = 0 THEN Err(st)
              ELSE [st EXCEPT !.N[st.cur].nm = tok.tx, !.stale = IF TwoPart(tok) /\ HasEdge(st) THEN TRUE ELSE @]
         ELSE IF st.prev \notin {"(", ","} \/ st.cur = 0 THEN Err(st)
              ELSE [AddChild(st, tok.tx) EXCEPT !.prev = "w"]
    [] tok.k = ";" -> IF st.level # 0 \/ st.stale THEN Err(st) ELSE [st EXCEPT !.phase = "ok"]
    [] tok.k = "eof" -> Err(st)         \* the end of the text before ";" is always an error
    [] OTHER -> Err(st)

ParseStep(st, tok) ==
  CASE st.phase = "pre"  -> IF tok.k = "cm" THEN (IF tok.ok THEN [st EXCEPT !.phase = "pre2"] ELSE Err(st))
                            ELSE IF tok.k = "(" THEN RunStep([st EXCEPT !.phase = "run"], tok) ELSE Err(st)
    [] st.phase = "pre2" -> IF tok.k = "(" THEN RunStep([st EXCEPT !.phase = "run"], tok) ELSE Err(st)
    [] st.phase = "run"  -> RunStep(st, tok)
    [] OTHER -> st

RECURSIVE ParseFrom(_, _, _)
ParseFrom(st, toks, i) ==
  IF i > Len(toks) \/ st.phase \in {"ok", "err"} THEN st ELSE ParseFrom(ParseStep(st, toks[i]), toks, i + 1)
\* a text that ends without ";" meets the end of input
Parse(toks) == LET st == ParseFrom(InitState, toks, 1)
               IN  IF st.phase \in {"ok", "err"} THEN st ELSE Err(st)

=============================================================================
