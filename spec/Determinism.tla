---------------------------- MODULE Determinism ----------------------------
(***************************************************************************)
(* Layer M for C18: the sources of nondeterminism a gotree run can meet,    *)
(* and the program patterns that use them.                                  *)
(*                                                                          *)
(* A run is a function of (input, options, seed) and of two things the      *)
(* program does not control: the order in which `range` visits a map        *)
(* (chosen afresh at every loop, in every process) and, with several        *)
(* threads, the order in which per-tree records are emitted.  The model     *)
(* is a self-composition: two runs of the same pattern on the same map,     *)
(* each with its own visiting order; the output must be the same.           *)
(*                                                                          *)
(* Patterns (as they occur in the code, see DESIGN.md C18):                 *)
(*  dump        write "key value" lines while ranging over the map          *)
(*  dumpSorted  collect the keys, sort, then write                          *)
(*  dropLast2   collect the keys while ranging, then drop the last two      *)
(*              elements of the slice (meant to remove two known keys)      *)
(*  dropByValue collect the keys that are not the two known keys            *)
(*  applyAll    apply an update per key to a structure indexed by the OLD   *)
(*              keys (renaming through a pre-built index): order free       *)
(* TLC shows which patterns are order independent; the real code is then    *)
(* required (trace validation of repeated runs) to behave like the          *)
(* order-independent ones.                                                  *)
(***************************************************************************)
EXTENDS Integers, Sequences, FiniteSets, SequencesExt, TLC

CONSTANTS Keys,        \* keys of the map (integers)
          Special,     \* the two keys dropLast2 / dropByValue mean to remove
          Pattern

VARIABLES o1, o2, out1, out2, done
vars == <<o1, o2, out1, out2, done>>

Orders == {s \in [1..Cardinality(Keys) -> Keys] : \A a, b \in 1..Cardinality(Keys) : a # b => s[a] # s[b]}
Val(k) == k * 10

SortKeys(S) == SetToSortSeq(S, LAMBDA a, b : a < b)

Output(order) ==
  CASE Pattern = "dump"        -> [x \in 1..Len(order) |-> <<order[x], Val(order[x])>>]
    [] Pattern = "dumpSorted"  -> LET q == SortKeys(Keys) IN [x \in 1..Len(q) |-> <<q[x], Val(q[x])>>]
    [] Pattern = "dropLast2"   -> {order[x] : x \in 1..(Len(order) - 2)}
    [] Pattern = "dropByValue" -> {order[x] : x \in {y \in 1..Len(order) : order[y] \notin Special}}
    [] Pattern = "applyAll"    -> [k \in Keys |-> Val(k)]
    [] OTHER -> <<>>

Init == o1 \in Orders /\ o2 \in Orders /\ out1 = <<>> /\ out2 = <<>> /\ done = FALSE
Run  == ~done /\ out1' = Output(o1) /\ out2' = Output(o2) /\ done' = TRUE /\ UNCHANGED <<o1, o2>>
Spec == Init /\ [][Run]_vars

\* two runs on the same input, whatever order each one met
SameOutput == done => out1 = out2
\* and the pattern computes what it is meant to compute
Meant == done /\ Pattern \in {"dropLast2", "dropByValue"} => out1 = Keys \ Special

=============================================================================
