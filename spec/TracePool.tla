----------------------------- MODULE TracePool -----------------------------
(***************************************************************************)
(* Layer T for the threaded computations (C11).  One event per run of a     *)
(* pipeline (Compare, CompareWeighted, FBP, TBE) on the real code, either   *)
(* under a schedule forced from a behaviour of WorkerPool.tla (gate hooks)  *)
(* or free-running with a given number of threads (race detector on), with  *)
(* the records of the single-threaded run of the same input.                *)
(***************************************************************************)
EXTENDS Integers, Sequences, FiniteSets, TLC, Json

Trace == ndJsonDeserialize("trace.ndjson")

VARIABLES l, nfail
vars == <<l, nfail>>

Rep(pred, ev) == PrintT("FAIL|C11|" \o pred \o "|" \o ev.kind \o "|" \o ev.cls \o "|" \o ToString(l) \o "|" \o ev.case)
Note(kind, ev) == PrintT("NOTE|" \o kind \o "|" \o ev.kind \o "|" \o ev.cls \o "|" \o ToString(l) \o "|" \o ev.case)

HasErrItem(ev) == ev.errat >= 1 /\ ev.errat <= ev.n

Fails(ev) ==
  CASE ev.kind = "PoolRun" ->
         (IF ~ev.terminated THEN {"Terminates"} ELSE {})
         \* tree by tree the records of the single-threaded run (for FBP/TBE: the supports), whenever that run is
         \* itself complete (no erroneous tree cutting it short)
         \cup (IF ev.terminated /\ ev.seqterminated /\ (~HasErrItem(ev) \/ ev.pipeline \in {"compare", "cmpw", "hashmap"}) /\ ~ev.same
               THEN {"ResultsOfTheSingleThreadedRun"} ELSE {})
         \cup (IF ev.terminated /\ HasErrItem(ev) /\ ev.pipeline # "hashmap" /\ ~ev.errsurfaced THEN {"ErrorReachesTheCaller"} ELSE {})
         \cup (IF ev.terminated /\ ~HasErrItem(ev) /\ ev.errsurfaced /\ ~ev.seqerr THEN {"NoSpuriousError"} ELSE {})
    [] ev.kind = "RaceReport" -> IF ev.races > 0 THEN {"NoDataRace"} ELSE {}
    [] OTHER -> {}

Init == l = 1 /\ nfail = 0
TraceStep ==
  /\ l <= Len(Trace) /\ l' = l + 1
  /\ LET ev == Trace[l]
         f  == Fails(ev)
     IN  /\ \A x \in f : Rep(x, ev)
         /\ (ev.kind = "PoolRun" /\ ev.forced /\ ~ev.realizable => Note("DRIFT-SCHEDULE-NOT-REALIZABLE", ev))
         /\ nfail' = nfail + Cardinality(f)
Spec == Init /\ [][TraceStep]_vars

Accepted ==
  /\ TLCGet("stats").diameter - 1 = Len(Trace)
  /\ PrintT(<<"ACCEPTED", Len(Trace), TLCGet("stats").diameter - 1>>)

=============================================================================
