------------------------------ MODULE NexusDocs ------------------------------
(***************************************************************************)
(* Layer M for the Nexus reader as far as C02 / C13 need it: the GRAMMAR of *)
(* the documents it must read (a generator, not a transcription of the      *)
(* 700-line parser) and the systematic single-token deviations from it.     *)
(*                                                                          *)
(* A document is a sequence of tokens (strings as they appear in the file). *)
(* Base documents are assembled from blocks: TAXA (DIMENSIONS NTAX,         *)
(* TAXLABELS), TREES (optional TRANSLATE table, 1-2 TREE commands),         *)
(* CHARACTERS/DATA (DIMENSIONS, FORMAT with DATATYPE / MISSING / GAP /      *)
(* unknown key, MATRIX), an unknown block, comments and line ends, in any   *)
(* order of blocks.  Every base document is well formed: the reader must    *)
(* accept it and deliver exactly the trees it contains (C13).               *)
(* Deviations: at every position, the token deleted, replaced by every      *)
(* token of the alphabet, or preceded by every token of the alphabet, and   *)
(* every truncation.  On a deviation the reader may accept or refuse, but   *)
(* must return (C02: no crash, no hang), and every delivered tree must be   *)
(* usable.  TLC enumerates; the harness turns tokens into bytes and calls   *)
(* the real readers in an isolated worker.                                  *)
(***************************************************************************)
EXTENDS Integers, Sequences, FiniteSets, SequencesExt, TLC, Json

CONSTANTS Level,    \* 1: deletions and truncations; 2: + replacements; 3: + insertions
          Emit

VARIABLES doc, ntrees, kind
vars == <<doc, ntrees, kind>>

NL == "\n"
Alphabet == {"#NEXUS", "BEGIN", "END", ";", "=", ",", "[", "]", NL, "TAXA", "TREES", "CHARACTERS", "DATA", "FOO",
             "DIMENSIONS", "NTAX", "NCHAR", "TAXLABELS", "TREE", "TRANSLATE", "FORMAT", "DATATYPE", "MISSING", "GAP", "MATRIX",
             "a", "b", "c", "3", "4", "dna", "?", "-", "ACGT", "(a,b,c)", "(1,2,3)", "t1",
             \* numbers a reader must not trust: the largest int64, one that overflows it, a negative one, zero
             "9223372036854775807", "99999999999999999999", "-7", "0"}

Taxa(withDims) ==
  <<"BEGIN", "TAXA", ";", NL>> \o (IF withDims THEN <<"DIMENSIONS", "NTAX", "=", "3", ";", NL>> ELSE <<>>)
  \o <<"TAXLABELS", "a", "b", "c", ";", NL, "END", ";", NL>>
Trees(translate, two) ==
  <<"BEGIN", "TREES", ";", NL>>
  \o (IF translate THEN <<"TRANSLATE", NL, "1", "a", ",", NL, "2", "b", ",", NL, "3", "c", NL, ";", NL>> ELSE <<>>)
  \o <<"TREE", "t1", "=", (IF translate THEN "(1,2,3)" ELSE "(a,b,c)"), ";", NL>>
  \o (IF two THEN <<"TREE", "t2", "=", "[", "a", "]", (IF translate THEN "(1,2,3)" ELSE "(a,b,c)"), ";", NL>> ELSE <<>>)
  \o <<"END", ";", NL>>
\* (fmt = 4: a DATA-style DIMENSIONS command that also gives NTAX)
Data(fmt) ==
  <<"BEGIN", "CHARACTERS", ";", NL>>
  \o (IF fmt = 4 THEN <<"DIMENSIONS", "NTAX", "=", "3", "NCHAR", "=", "4", ";", NL>>
                  ELSE <<"DIMENSIONS", "NCHAR", "=", "4", ";", NL>>)
  \o (CASE fmt = 1 -> <<"FORMAT", "DATATYPE", "=", "dna", "MISSING", "=", "*", "GAP", "=", "-", ";", NL>>
        [] fmt = 2 -> <<"FORMAT", "DATATYPE", "=", "dna", "FOO", "=", "a", ";", NL>>
        [] OTHER   -> <<>>)
  \o <<"MATRIX", NL, "a", "ACGT", NL, "b", "ACGT", NL, "c", "ACGT", NL, ";", NL, "END", ";", NL>>
Unknown == <<"BEGIN", "FOO", ";", NL, "a", "b", "=", "3", ";", NL, "END", ";", NL>>
Comment == <<"[", "a", "b", "]", NL>>

Head0 == <<"#NEXUS", NL>>

\* [toks, ntrees]
BaseDocs ==
  {[toks |-> Head0 \o Taxa(d) \o Trees(tr, two), n |-> IF two THEN 2 ELSE 1] : d \in BOOLEAN, tr \in BOOLEAN, two \in BOOLEAN}
  \cup {[toks |-> Head0 \o Comment \o Trees(FALSE, two) \o Unknown, n |-> IF two THEN 2 ELSE 1] : two \in BOOLEAN}
  \cup {[toks |-> Head0 \o Taxa(TRUE) \o Data(f) \o Trees(FALSE, FALSE), n |-> 1] : f \in 1..4}
  \cup {[toks |-> Head0 \o Unknown \o Comment \o Taxa(FALSE), n |-> 0]}

RemoveAt2(s, i) == SubSeq(s, 1, i - 1) \o SubSeq(s, i + 1, Len(s))
ReplaceAtTok(s, i, t) == [s EXCEPT ![i] = t]
InsertBefore(s, i, t) == SubSeq(s, 1, i - 1) \o <<t>> \o SubSeq(s, i, Len(s))

Deviations(s) ==
  {[toks |-> RemoveAt2(s, i), k |-> "delete"] : i \in 1..Len(s)}
  \cup {[toks |-> SubSeq(s, 1, i), k |-> "truncate"] : i \in 0..(Len(s) - 1)}
  \cup (IF Level >= 2 THEN {[toks |-> ReplaceAtTok(s, i, t), k |-> "replace"] : i \in 1..Len(s), t \in Alphabet} ELSE {})
  \cup (IF Level >= 3 THEN {[toks |-> InsertBefore(s, i, t), k |-> "insert"] : i \in 1..(Len(s) + 1), t \in Alphabet} ELSE {})

Init == \E b \in BaseDocs : doc = b.toks /\ ntrees = b.n /\ kind = "base"
Deviate == /\ kind = "base"
           /\ \E d \in Deviations(doc) : doc' = d.toks /\ kind' = d.k /\ ntrees' = -1
Spec == Init /\ [][Deviate]_vars

\* every document starts like a Nexus file unless the deviation touched the first token; base documents are balanced
BaseWellFormed ==
  kind = "base" =>
    /\ doc[1] = "#NEXUS"
    /\ Cardinality({i \in 1..Len(doc) : doc[i] = "BEGIN"}) = Cardinality({i \in 1..Len(doc) : doc[i] = "END"})
    /\ Cardinality({i \in 1..Len(doc) : doc[i] = "TREE"}) = ntrees

EmitDoc == Emit => PrintT("CASE|" \o ToJson([fam |-> "C02nexus", toks |-> doc, kind |-> kind, ntrees |-> ntrees]))

=============================================================================
