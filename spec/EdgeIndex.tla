----------------------------- MODULE EdgeIndex -----------------------------
(***************************************************************************)
(* Layer M for the split-keyed index (C04): hashmap.HashMap exactly as      *)
(* coded, with tree.EdgeIndex on top of it.                                 *)
(*                                                                          *)
(*   buckets : sequence (length cap) of sequences of [key, pres, cnt, len]  *)
(*   indexFor = hash & (cap - 1); PutValue overwrites on an equal key,      *)
(*   else appends and counts; rehash when total >= cap * load doubles the   *)
(*   capacity and re-inserts every entry.                                   *)
(*                                                                          *)
(* Keys are splits 1..NKeys, each in two presentations (the same split seen *)
(* from another rooting / orientation / tree): HashEquals holds between     *)
(* presentations of one split, and their hash codes agree - which is what   *)
(* the tree side of C04 (IndexProps) establishes on the real branches.      *)
(* Hash(k) is deliberately poor (many collisions).                          *)
(*                                                                          *)
(* The refinement variable `plain` is an ordinary function split ->         *)
(* [cnt, len]; invariant ActsLikeMap says that every observable answer of   *)
(* the bucket structure equals the answer of `plain`, through any number of *)
(* insertions and resizes, for every initial capacity and load factor.      *)
(* Direction A: every transition is printed as a case (the op sequence that *)
(* reached the state + the op) and replayed on the real EdgeIndex.          *)
(***************************************************************************)
EXTENDS Integers, Sequences, FiniteSets, FiniteSetsExt, SequencesExt, Bitwise, TLC, Json

CONSTANTS NKeys,       \* number of distinct splits
          MaxOps,      \* length of an operation sequence
          Caps,        \* initial capacities
          Loads,       \* load factors: indexes into LoadTable
          Emit

VARIABLES cap, cap0, load, buckets, total, plain, hist, last
vars == <<cap, cap0, load, buckets, total, plain, hist, last>>

Keys == 1..NKeys
LoadTable == <<<<1, 2>>, <<3, 4>>, <<1, 1>>, <<1, 4>>, <<2, 1>>>>   \* num/den
Pres == {1, 2}
Hash(k) == (k * 5) % 4                 \* 4 hash values only
IndexFor(h, c) == h & (c - 1)

EmptyBuckets(c) == [i \in 1..c |-> <<>>]
NoEntry == [ok |-> FALSE, cnt |-> 0, len |-> 0]

\* position of key k in bucket b (0 if absent); equality ignores the presentation
PosIn(b, k) == IF \E i \in 1..Len(b) : b[i].key = k THEN CHOOSE i \in 1..Len(b) : b[i].key = k ELSE 0

Lookup(bs, c, k) ==
  LET b == bs[IndexFor(Hash(k), c) + 1]
      p == PosIn(b, k)
  IN  IF p = 0 THEN NoEntry ELSE [ok |-> TRUE, cnt |-> b[p].cnt, len |-> b[p].len]

\* rehash: every entry re-inserted in bucket order into twice the capacity
RECURSIVE ReinsertAll(_, _, _)
ReinsertAll(entries, i, nb) ==
  IF i > Len(entries) THEN nb
  ELSE LET e  == entries[i]
           ix == IndexFor(Hash(e.key), Len(nb)) + 1
       IN  ReinsertAll(entries, i + 1, [nb EXCEPT ![ix] = Append(@, e)])

AllEntries(bs) == FoldLeft(LAMBDA acc, b : acc \o b, <<>>, bs)

NeedsRehash(t, c) == t * load[2] >= c * load[1]

PutRaw(k, p, cnt, len) ==
  LET ix == IndexFor(Hash(k), cap) + 1
      b  == buckets[ix]
      ps == PosIn(b, k)
  IN  IF ps # 0
      THEN \* equal key: the value is overwritten, nothing else happens (no rehash on this path)
           /\ buckets' = [buckets EXCEPT ![ix][ps] = [key |-> b[ps].key, pres |-> b[ps].pres, cnt |-> cnt, len |-> len]]
           /\ UNCHANGED <<cap, total>>
      ELSE LET nb == [buckets EXCEPT ![ix] = Append(@, [key |-> k, pres |-> p, cnt |-> cnt, len |-> len])]
               nt == total + 1
           IN  /\ total' = nt
               /\ IF NeedsRehash(nt, cap)
                  THEN cap' = 2 * cap /\ buckets' = ReinsertAll(AllEntries(nb), 1, EmptyBuckets(2 * cap))
                  ELSE cap' = cap /\ buckets' = nb

\* the branch length carried by presentation p of split k (presentations may differ in length)
LenOf(k, p) == k * 2 + p

Record(op) == hist' = Append(hist, op)

Put(k, p, cnt) ==
  /\ PutRaw(k, p, cnt, LenOf(k, p))
  /\ plain' = [x \in DOMAIN plain \cup {k} |-> IF x = k THEN [cnt |-> cnt, len |-> LenOf(k, p)] ELSE plain[x]]
  /\ last' = [op |-> "Put", ok |-> TRUE, cnt |-> cnt, len |-> LenOf(k, p)]
  /\ Record([op |-> "Put", key |-> k, pres |-> p, cnt |-> cnt])

\* AddEdgeCount: Value, then PutValue of a new entry or in-place increment
AddCount(k, p) ==
  LET v == Lookup(buckets, cap, k)
  IN  /\ IF v.ok
         THEN LET ix == IndexFor(Hash(k), cap) + 1
                  ps == PosIn(buckets[ix], k)
              IN  /\ buckets' = [buckets EXCEPT ![ix][ps].cnt = @ + 1, ![ix][ps].len = @ + LenOf(k, p)]
                  /\ UNCHANGED <<cap, total>>
         ELSE PutRaw(k, p, 1, LenOf(k, p))
      /\ plain' = [x \in DOMAIN plain \cup {k} |->
                     IF x = k THEN (IF k \in DOMAIN plain THEN [cnt |-> plain[k].cnt + 1, len |-> plain[k].len + LenOf(k, p)]
                                    ELSE [cnt |-> 1, len |-> LenOf(k, p)])
                     ELSE plain[x]]
      /\ last' = [op |-> "Add", ok |-> TRUE, cnt |-> 0, len |-> 0]
      /\ Record([op |-> "Add", key |-> k, pres |-> p, cnt |-> 0])

Value(k, p) ==
  /\ last' = [op |-> "Value"] @@ Lookup(buckets, cap, k)
  /\ UNCHANGED <<cap, buckets, total, plain>>
  /\ Record([op |-> "Value", key |-> k, pres |-> p, cnt |-> 0])

Init ==
  /\ cap \in Caps /\ cap0 = cap /\ load \in {LoadTable[i] : i \in Loads}
  /\ buckets = EmptyBuckets(cap) /\ total = 0
  /\ plain = [x \in {} |-> 0] /\ hist = <<>> /\ last = [op |-> "Init"] @@ NoEntry

Next ==
  /\ Len(hist) < MaxOps
  /\ \E k \in Keys, p \in Pres :
        \/ \E c \in {1, 7} : Put(k, p, c)
        \/ AddCount(k, p)
        \/ Value(k, p)
  /\ UNCHANGED <<load, cap0>>

Spec == Init /\ [][Next]_vars

\* the history and the last answer are observation only
StateView == <<cap, load, buckets, total, plain>>

\* one case per transition: the sequence that reached the pre-state followed by the op
EmitTransition ==
  Emit => PrintT("CASE|" \o ToJson([fam |-> "C04idx", cap |-> cap0, loadnum |-> load[1], loadden |-> load[2], nkeys |-> NKeys, ops |-> hist']))

-----------------------------------------------------------------------------
(* refinement: the bucket structure answers like the plain map              *)

PlainLookup(k) == IF k \in DOMAIN plain THEN [ok |-> TRUE, cnt |-> plain[k].cnt, len |-> plain[k].len] ELSE NoEntry

ActsLikeMap ==
  /\ \A k \in Keys : Lookup(buckets, cap, k) = PlainLookup(k)
  /\ total = Cardinality(DOMAIN plain)
  /\ Len(AllEntries(buckets)) = total
  /\ {e.key : e \in ToSet(AllEntries(buckets))} = DOMAIN plain
  /\ Len(buckets) = cap
  \* every entry sits in the bucket its hash code selects, once
  /\ \A i \in 1..cap : \A j \in 1..Len(buckets[i]) :
        /\ IndexFor(Hash(buckets[i][j].key), cap) + 1 = i
        /\ \A j2 \in 1..Len(buckets[i]) : j2 # j => buckets[i][j2].key # buckets[i][j].key

\* the answer of the last Value call equals the plain map's
AnswersLikeMap == last.op = "Value" => \E k \in Keys : [ok |-> last.ok, cnt |-> last.cnt, len |-> last.len] = PlainLookup(k)

=============================================================================
