------------------------------ MODULE TreeOps ------------------------------
(***************************************************************************)
(* Layer M (state machine): the editing API of gotree as a transition       *)
(* system over abstract trees.  TLC explores it exhaustively from every     *)
(* multifurcating labelled tree up to MaxTips tips x every decoration       *)
(* pattern, with every operation and every argument, to depth MaxDepth.     *)
(*                                                                          *)
(*  - design level: the listed properties (EditProps) are evaluated on      *)
(*    every model transition (variable mfail, invariant ModelSatisfies);    *)
(*  - direction A of the conformance: every transition is printed as a      *)
(*    self-contained case  CASE|{pre, op, args}  that the Go harness        *)
(*    replays on the real library; the recorded execution comes back        *)
(*    through TraceEdit.tla, which also checks that the real result is one  *)
(*    of the results the model allows.                                      *)
(***************************************************************************)
EXTENDS TreeEnum, Json

CONSTANTS MaxTips,      \* largest number of tips of an initial tree
          MinTips,
          Pats,         \* decoration patterns used (subset of 1..8)
          MaxDepth,     \* number of operations per behaviour
          OpsOn,        \* names of the operations explored
          Emit,         \* print cases for replay
          Chains        \* also start from trees with a chain of two single-child nodes above one node

VARIABLES m,        \* the abstract tree
          depth,    \* operations applied so far
          mfail     \* property predicates violated by the last model transition
vars == <<m, depth, mfail>>

-----------------------------------------------------------------------------
(* initial trees: tips 1..k named t1..tk, inner nodes k+1..k+j numbered so  *)
(* that a parent has a larger number than its inner children (acyclic by    *)
(* construction), every inner node with at least two children.              *)

\* t with two single-child inner nodes inserted above the non-root node n (what re-rooting a rooted tree leaves, twice)
WithChain(t, n) ==
  LET a  == FreshId(t)
      b  == a + 1
      t1 == AddNode(t, a, t.par[n], "", 65536, NIL, NIL)
      t2 == AddNode(t1, b, a, "", 131072, NIL, NIL)
  IN  SetBr(t2, n, b, t.len[n], t.sup[n], t.pv[n])

\* (every function of the record is evaluated eagerly: TLC cannot write a lazily evaluated function value of an initial
\* state to its disk queue -- StatePoolWriter fails with "fcnRcd is null" as soon as the queue spills)
Eager(t) == [nodes |-> t.nodes, root |-> t.root, par |-> TLCEval(t.par), nm |-> TLCEval(t.nm),
             len |-> TLCEval(t.len), sup |-> TLCEval(t.sup), pv |-> TLCEval(t.pv)]
InitTrees == TreesOf(MinTips, MaxTips, Pats)
             \cup (IF Chains THEN UNION {{Eager(WithChain(t, n)) : n \in t.nodes \ {t.root}} : t \in TreesOf(MinTips, MaxTips, Pats)} ELSE {})

-----------------------------------------------------------------------------
(* all calls enabled on a tree, with all argument choices                   *)

NamesSeq(S) == LET ids == {CHOOSE i \in 1..20 : TipName(i) = x : x \in S \ {"zz"}}
               IN  [i \in 1..Cardinality(ids) |-> TipName(SetToSeqSorted(ids)[i])]
                   \o (IF "zz" \in S THEN <<"zz">> ELSE <<>>)

OpsOf(t) ==
  LET V     == MView(t)
      names == V.names
      inner == {n \in t.nodes : DegM(t, n) >= 2}
      lens  == {t.len[n] : n \in BranchNodes(t)} \ {NIL}
      sups  == {t.sup[n] : n \in BranchNodes(t)} \ {NIL}
      nt    == Cardinality(names)
      E(op, args) == [op |-> op, args |-> args]
      on(o) == o \in OpsOn
  IN
     (IF on("Reroot") THEN {E("Reroot", [node |-> n]) : n \in inner} ELSE {})
  \cup (IF on("RerootFirst") THEN {E("RerootFirst", [x |-> 0])} ELSE {})
  \cup (IF on("UnRoot") THEN {E("UnRoot", [x |-> 0])} ELSE {})
  \cup (IF on("RerootMidPoint") THEN {E("RerootMidPoint", [x |-> 0])} ELSE {})
  \cup (IF on("RerootOutGroup")
        THEN {E("RerootOutGroup", [names |-> NamesSeq(S), strict |-> st, remove |-> rm]) :
                S \in (SUBSET names \ {{}}) \cup {{CHOOSE x \in names : TRUE, "zz"}}, st \in BOOLEAN, rm \in BOOLEAN}
        ELSE {})
  \cup (IF on("RemoveTips")
        THEN {E("RemoveTips", [names |-> NamesSeq(S), revert |-> rv]) :
                S \in {S \in SUBSET names : (Cardinality(S) >= 1 /\ nt - Cardinality(S) >= 3)}
                      \cup {{CHOOSE x \in names : TRUE, "zz"}}, rv \in {FALSE}}
             \cup {E("RemoveTips", [names |-> NamesSeq(S), revert |-> TRUE]) :
                S \in {S \in SUBSET names : Cardinality(S) >= 3 /\ Cardinality(S) < nt}}
        ELSE {})
  \cup (IF on("CollapseShortBranches")
        THEN {E("CollapseShortBranches", [thr |-> th, root |-> f[1], tips |-> f[2]]) :
                th \in lens \cup {l + 16384 : l \in lens} \cup {l - 16384 : l \in {x \in lens : x >= 16384}} \cup {0},
                f \in {<<FALSE, FALSE>>, <<TRUE, FALSE>>, <<FALSE, TRUE>>}}
        ELSE {})
  \cup (IF on("CollapseLowSupport")
        THEN {E("CollapseLowSupport", [thr |-> th, root |-> r]) :
                th \in sups \cup {s + 4096 : s \in sups} \cup {s - 4096 : s \in {x \in sups : x >= 4096}} \cup {524288},
                r \in BOOLEAN}
        ELSE {})
  \cup (IF on("CollapseTopoDepth")
        THEN {E("CollapseTopoDepth", [min |-> a, max |-> b, root |-> r, tips |-> FALSE]) :
                a \in 1..(nt \div 2 + 1), b \in 0..(nt \div 2 + 1), r \in BOOLEAN}
        ELSE {})
  \cup (IF on("Resolve") THEN {E("Resolve", [x |-> 0])} ELSE {})
  \cup (IF on("RemoveSingleNodes") THEN {E("RemoveSingleNodes", [x |-> 0])} ELSE {})
  \cup (IF on("InsertIdenticalTips")
        THEN {E("InsertIdenticalTips", [groups |-> <<g>>]) :
                g \in UNION {{<<x, "i1">>, <<"i1", x, "i2">>} : x \in names}}
        ELSE {})
  \cup (IF on("Rotate") THEN {E("RotateInternalNodes", [x |-> 0]), E("SortNeighborsByTips", [x |-> 0])} ELSE {})

Judge(ev, V, W) ==
  C05Fails(ev, V, W) \cup C06Fails(ev, V, W) \cup C07Fails(ev, V, W) \cup C15LocalFails(ev, V, W)

-----------------------------------------------------------------------------

Init == m \in InitTrees /\ depth = 0 /\ mfail = {}

Step(ev) ==
  LET r == Apply(m, ev)
  IN  /\ r.ok
      /\ (Emit => PrintT("CASE|" \o ToJson([pre |-> TreeJson(m), op |-> ev.op, args |-> ev.args, depth |-> depth])))
      /\ \E t \in r.res :
           /\ m' = Eager(t)
           \* judged like a recorded step: only between two trees of the domain (>= 2 tips, root with >= 2 children)
           /\ mfail' = IF InDomain(MView(m)) /\ InDomain(MView(t))
                       THEN {ev.op \o "." \o f : f \in Judge(ev, MView(m), MView(t))} ELSE {}
           /\ \A f \in mfail' : PrintT("MODELFAIL|" \o f \o "|" \o ToJson([pre |-> TreeJson(m), op |-> ev.op, args |-> ev.args]))
           /\ depth' = depth + 1

\* a refused call is still a case for the real code (and a point where the model claims an error)
Refused(ev) ==
  /\ Apply(m, ev).refuse
  /\ (Emit => PrintT("CASE|" \o ToJson([pre |-> TreeJson(m), op |-> ev.op, args |-> ev.args, depth |-> depth])))
  /\ FALSE

Next == depth < MaxDepth /\ \E ev \in OpsOf(m) : Step(ev) \/ Refused(ev)

Spec == Init /\ [][Next]_vars

\* the states are compared up to node numbering
StateView == <<Canon(MView(m)), depth, mfail>>

\* design level: the transcription of the algorithms satisfies the listed properties
ModelSatisfies == mfail = {}

\* every model state is a tree in the domain of the properties
ModelWellFormed ==
  /\ m.root \in m.nodes /\ m.par[m.root] = 0
  /\ \A n \in m.nodes \ {m.root} : m.par[n] \in m.nodes
  /\ \A n \in m.nodes : m.root \in ChainR(m.par, m.root, n, Cardinality(m.nodes))
  /\ \A n \in m.nodes \ {m.root} : 0 \notin ChainR(m.par, m.root, n, Cardinality(m.nodes))
  /\ UniqueNames(MView(m))

=============================================================================
