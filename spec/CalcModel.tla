----------------------------- MODULE CalcModel -----------------------------
(***************************************************************************)
(* Layer M for the computing entry points that consume a stream of trees:   *)
(* comparison with a reference tree (C08), consensus (C09), bootstrap       *)
(* supports (C10) and, for a single tree, distance matrices / clusters      *)
(* (C14).  The state is what the code keeps between two trees of the        *)
(* stream: the reference tree, the frequency table of the consensus (the    *)
(* split-keyed index with counts and summed lengths), the per-branch        *)
(* counters of the supports.  One action per tree read from the stream.     *)
(*                                                                          *)
(* Design level (checked by TLC on every reachable state of the bound):     *)
(*  - the accumulators, transcribed from the code, equal the definitions    *)
(*    of CalcProps (TableIsFrequency, SupportsAreDefinitions, CompareIs-    *)
(*    SetDifference, SelectionIsThreshold);                                 *)
(*  - the definitions are consistent: frequent splits are pairwise          *)
(*    compatible (so a consensus tree exists), 0 <= FBP <= TBE <= 1,        *)
(*    TBE = 1 iff the split is in every tree, comparison is antisymmetric.  *)
(* Direction A: every state is printed as a self-contained case             *)
(*    CASE|{fam, ref, trees, ...}   that the harness replays on the real    *)
(* library; the recorded calls come back through TraceCalc.tla.             *)
(***************************************************************************)
EXTENDS TreeEnum, CalcProps, Json

CONSTANTS Family,     \* "C08", "C09", "C10", "C14"
          NTaxa,      \* number of tips of every tree
          MaxTrees,   \* trees consumed from the stream
          Pat,        \* decoration pattern of the trees (TreeEnum.LenPat)
          Emit

VARIABLES ref,    \* the reference tree (model tree) or NoRef
          seen,   \* the trees consumed so far
          tab,    \* consensus: split -> [cnt, len] accumulated (the index of Consensus)
          found,  \* FBP: ref split -> number of trees in which it was found
          tsum    \* TBE: ref split -> sum of transfer distances
vars == <<ref, seen, tab, found, tsum>>

NoRef == [nodes |-> {}]
HasRef == ref.nodes # {}

Pool     == TreesOf(NTaxa, NTaxa, {Pat})
Unrooted == {t \in Pool : DegM(t, t.root) >= 3}

EmptyFn == [x \in {} |-> 0]
Cutoffs == {<<1, 2>>, <<5, 8>>, <<3, 4>>, <<1, 1>>}

-----------------------------------------------------------------------------
(* transcriptions                                                           *)

L16(V, n) == Num(BrOf(V, n).len) \div 32768      \* in units of 1/32, like CalcProps.SumLen16

\* Consensus: the loop over the branches of one tree (the two root branches of a rooted tree are the
\* same bipartition: counted once, lengths summed)
RECURSIVE AddEdges(_, _, _, _, _)
AddEdges(tb, V, seq, i, rootseen) ==
  IF i > Len(seq) THEN tb
  ELSE LET n   == seq[i]
           re  == IsRooted(V) /\ V.par[n] = V.root
           s   == SplitOf(V, n)
           l   == L16(V, n)
       IN  IF re /\ rootseen
           THEN AddEdges(IF s \in DOMAIN tb THEN [tb EXCEPT ![s].len = @ + l] ELSE tb, V, seq, i + 1, TRUE)
           ELSE AddEdges(IF s \in DOMAIN tb THEN [tb EXCEPT ![s] = [cnt |-> @.cnt + 1, len |-> @.len + l]]
                         ELSE tb @@ (s :> [cnt |-> 1, len |-> l]),
                         V, seq, i + 1, rootseen \/ re)

AddTree(tb, V) == AddEdges(tb, V, SetToSeqSorted(NonRoot(V)), 1, FALSE)

\* Consensus: Edges(int(cutoff*n), n) of the index
SelectedByCode(tb, num, den, n) ==
  LET lo == (num * n) \div den
  IN  {s \in DOMAIN tb : NonTrivial(s) /\ ((tb[s].cnt > lo /\ tb[s].cnt <= n) \/ tb[s].cnt = n)}

\* FBP: the bootstrap tree's inner branches are indexed, every reference branch is looked up
FoundIn(Vr, Vb) == {s \in NTSplits(Vr) : s \in {SplitOf(Vb, n) : n \in NonRoot(Vb) \ Vb.tips}}

\* TBE: minTransferDistRecur — ones below every branch of the bootstrap tree, distance p - zero + ones,
\* folded into [0, N/2], starting from p - 1
TransferByCode(s, Vb, N) ==
  LET L == LightSide(s, N)
      p == Cardinality(L)
      d(n) == LET r    == Cardinality(Vb.below[n])
                  ones == Cardinality(Vb.below[n] \ L)
                  zero == r - ones
                  x    == p - zero + ones
              IN  IF x > N \div 2 THEN N - x ELSE x
  IN  MinOf({p - 1} \cup {d(n) : n \in NonRoot(Vb)})

\* Compare: the loop over the compared tree's branches against the index of the reference tree
CompareByCode(Vr, Vc, tips) ==
  LET refS   == {SplitOf(Vr, n) : n \in NonRoot(Vr)}
      total  == Cardinality({n \in NonRoot(Vr) : tips \/ n \notin Vr.tips})
      total2 == Cardinality({n \in NonRoot(Vc) : tips \/ n \notin Vc.tips})
      okc(n) == n \in Vc.tips \/ SplitOf(Vc, n) \in refS
      common == Cardinality({n \in NonRoot(Vc) : okc(n) /\ (tips \/ n \notin Vc.tips)})
      same0  == \A n \in NonRoot(Vc) : okc(n)
  IN  [tree1 |-> total - common, tree2 |-> total2 - common, common |-> common, same |-> same0 /\ total = common,
       err |-> FALSE, n |-> 1, id |-> 0]

-----------------------------------------------------------------------------

Views == [i \in 1..Len(seen) |-> MView(seen[i])]

Init == /\ seen = <<>> /\ tab = EmptyFn /\ found = EmptyFn /\ tsum = EmptyFn
        /\ IF Family = "C09" THEN ref = NoRef
           ELSE IF Family = "C08" THEN ref \in Unrooted
           ELSE ref \in Pool

CaseJson == [fam |-> Family, pat |-> Pat, ref |-> IF HasRef THEN TreeJson(ref) ELSE [root |-> 0, nodes |-> <<>>],
             trees |-> [i \in 1..Len(seen) |-> TreeJson(seen[i])]]

Consume(t) ==
  LET V  == MView(t)
      Vr == MView(ref)
      N  == NTaxa
  IN  /\ Len(seen) < MaxTrees
      /\ seen' = Append(seen, t)
      /\ ref' = ref
      /\ tab' = IF Family = "C09" THEN AddTree(tab, V) ELSE tab
      /\ found' = IF Family = "C10"
                  THEN [s \in NTSplits(Vr) |-> (IF s \in DOMAIN found THEN found[s] ELSE 0) + (IF s \in FoundIn(Vr, V) THEN 1 ELSE 0)]
                  ELSE found
      /\ tsum' = IF Family = "C10"
                 THEN [s \in NTSplits(Vr) |-> (IF s \in DOMAIN tsum THEN tsum[s] ELSE 0)
                                               + (IF s \in FoundIn(Vr, V) THEN 0 ELSE TransferByCode(s, V, N))]
                 ELSE tsum

Next == /\ Family # "C14"
        /\ \E t \in (IF Family = "C08" THEN Unrooted ELSE Pool) : Consume(t)

Spec == Init /\ [][Next]_vars

\* the order in which the trees were read does not matter to any accumulator
SeenBag == BagOfSeq(seen)
StateView == <<ref, SeenBag>>

\* printed once per explored state
EmitCase == Emit /\ (Family = "C14" \/ Len(seen) >= 1) => PrintT("CASE|" \o ToJson(CaseJson))

-----------------------------------------------------------------------------
(* design-level theorems (INVARIANTS)                                       *)

Compatible(s1, s2) == \E a \in s1 : \E b \in s2 : a \cap b = {}

TableIsFrequency ==
  Family = "C09" /\ Len(seen) >= 1 =>
    LET Vs == Views
        SS == [i \in 1..Len(seen) |-> Splits(Vs[i])]
        SL == [i \in 1..Len(seen) |-> SplitLen(Vs[i])]
    IN  /\ DOMAIN tab = UNION {SS[i] : i \in 1..Len(seen)}
        /\ \A s \in DOMAIN tab : tab[s].cnt = CountIn(SS, s) /\ tab[s].len = SumLen16(SS, SL, s)

SelectionIsThreshold ==
  Family = "C09" /\ Len(seen) >= 1 =>
    LET SS == [i \in 1..Len(seen) |-> Splits(Views[i])]
    IN  \A c \in Cutoffs : SelectedByCode(tab, c[1], c[2], Len(seen)) = Frequent(SS, c[1], c[2])

FrequentSplitsFormATree ==
  Family = "C09" /\ Len(seen) >= 1 =>
    LET SS == [i \in 1..Len(seen) |-> Splits(Views[i])]
    IN  \A c \in Cutoffs : \A s1, s2 \in Frequent(SS, c[1], c[2]) : Compatible(s1, s2)

SupportsAreDefinitions ==
  Family = "C10" /\ Len(seen) >= 1 =>
    LET Vr == MView(ref)
        Bs == Views
        BS == [i \in 1..Len(seen) |-> Splits(Bs[i])]
        n  == Len(seen)
    IN  \A s \in NTSplits(Vr) :
          LET f == FBPValue(s, BS)
              t == TBEValue(s, Bs, NTaxa)
              p == Cardinality(LightSide(s, NTaxa))
          IN  /\ found[s] = f.num /\ f.den = n
              /\ n * (p - 1) - tsum[s] = t.num
              \* 0 <= FBP <= TBE <= 1, and TBE = 1 exactly when the split is in every tree
              /\ 0 <= f.num /\ f.num <= f.den
              /\ 0 <= t.num /\ t.num <= t.den
              /\ f.num * t.den <= t.num * f.den
              /\ (t.num = t.den) = (f.num = f.den)

\* C14: "connected through branches shorter than the threshold" is an equivalence on the tips, so the
\* clusters partition them; distances are symmetric with a zero diagonal
ClustersPartitionTheTips ==
  Family = "C14" =>
    LET V    == MView(ref)
        lens == {Num(BrOf(V, n).len) : n \in NonRoot(V)}
    IN  /\ \A thr \in lens \cup {l + 4096 : l \in lens} :
             \A a, b \in V.tips : (b \in CompOf(V, thr, a)) = (CompOf(V, thr, a) = CompOf(V, thr, b))
        /\ \A a, b \in V.tips : \A mt \in {"brlen", "boot", "none"} :
             DistBy(V, mt, a, b) = DistBy(V, mt, b, a) /\ DistBy(V, mt, a, a) = 0

CompareIsSetDifference ==
  Family = "C08" /\ Len(seen) >= 1 =>
    LET Vr == MView(ref)
        Vc == MView(seen[Len(seen)])
    IN  \A tips \in BOOLEAN :
          LET a == CompareByCode(Vr, Vc, tips)
              b == CompareByCode(Vc, Vr, tips)
          IN  /\ F_Compare(Vr, Vc, tips, FALSE, a) = {}
              /\ a.tree1 = b.tree2 /\ a.tree2 = b.tree1 /\ a.common = b.common /\ a.same = b.same
              /\ a.same = (a.tree1 = 0 /\ a.tree2 = 0)

=============================================================================
