---------------------------- MODULE TreeOpsDef ----------------------------
(***************************************************************************)
(* Layer M (definitions): the public editing calls of gotree's tree package *)
(* as functions on abstract trees.  One operator per public call; what the  *)
(* code decides by traversal order or by a random draw is a set of results. *)
(*                                                                          *)
(* A model tree m is  [nodes, root, par, nm, len, sup, pv]  with par, nm,   *)
(* len, sup, pv functions on m.nodes; len/sup/pv describe the branch above  *)
(* a node; par[root] = 0.  Child order is not part of the model (it is      *)
(* never part of a listed property except C01/C15/C17's "identical text",   *)
(* which is judged on the recorded states directly).                        *)
(*                                                                          *)
(* Apply(m, op) = [ok |-> BOOLEAN, res |-> set of model trees].             *)
(***************************************************************************)
EXTENDS EditProps, SequencesExt

-----------------------------------------------------------------------------
(* basics                                                                   *)

KidsM(m, n) == {c \in m.nodes : m.par[c] = n}
DegM(m, n)  == Cardinality(KidsM(m, n)) + (IF n = m.root THEN 0 ELSE 1)
TipsM(m)    == {n \in m.nodes \ {m.root} : KidsM(m, n) = {}}
IsTipM(m, n) == n # m.root /\ KidsM(m, n) = {}
\* gotree's Node.Tip(): exactly one neighbour (a root with a single child also answers true)
GoTip(m, n) == DegM(m, n) = 1

MView(m) ==
  LET anc   == TLCEval([n \in m.nodes |-> ChainR(m.par, m.root, n, Cardinality(m.nodes))])
      tips  == TipsM(m)
      below == TLCEval([n \in m.nodes |-> {m.nm[t] : t \in {u \in tips : n \in anc[u]}}])
  IN  [nodes |-> m.nodes, root |-> m.root, par |-> m.par, nm |-> m.nm,
       deg |-> [n \in m.nodes |-> DegM(m, n)],
       br  |-> [n \in m.nodes |-> [len |-> m.len[n], sup |-> m.sup[n], pv |-> m.pv[n], id |-> n, cm |-> <<>>]],
       anc |-> anc, tips |-> tips, names |-> {m.nm[t] : t \in tips}, below |-> below]

\* the model tree of a semantic view (used to apply the model to a state recorded from the real code)
FromView(V) ==
  [nodes |-> V.nodes, root |-> V.root, par |-> V.par, nm |-> V.nm,
   len |-> [n \in V.nodes |-> V.br[n].len], sup |-> [n \in V.nodes |-> V.br[n].sup],
   pv  |-> [n \in V.nodes |-> V.br[n].pv]]

Keep(m, K) ==
  [nodes |-> K, root |-> m.root, par |-> [n \in K |-> m.par[n]], nm |-> [n \in K |-> m.nm[n]],
   len |-> [n \in K |-> m.len[n]], sup |-> [n \in K |-> m.sup[n]], pv |-> [n \in K |-> m.pv[n]]]
Drop(m, D) == Keep(m, m.nodes \ D)

SetBr(m, n, p, l, s, v) == [m EXCEPT !.par[n] = p, !.len[n] = l, !.sup[n] = s, !.pv[n] = v]
MakeRoot(m, n) == [SetBr(m, n, 0, NIL, NIL, NIL) EXCEPT !.root = n]

FreshId(m) == Max(m.nodes) + 1
AddNode(m, id, p, name, l, s, v) ==
  LET K == m.nodes \cup {id}
      ext(f, x) == [n \in K |-> IF n = id THEN x ELSE f[n]]
  IN  [nodes |-> K, root |-> m.root, par |-> ext(m.par, p), nm |-> ext(m.nm, name),
       len |-> ext(m.len, l), sup |-> ext(m.sup, s), pv |-> ext(m.pv, v)]

MaxI(a, b) == IF a > b THEN a ELSE b
\* length of a branch obtained by joining two branches (removeTip, UnRoot): absent only if both are
\* (only the absent value counts as 0: a negative length keeps its value -- lengthOrZero in tree.go)
JoinLen(l1, l2) == IF l1 = NIL /\ l2 = NIL THEN NIL ELSE Num(l1) + Num(l2)

ErrTree == [nodes |-> {}, root |-> 0, par |-> <<>>, nm |-> <<>>, len |-> <<>>, sup |-> <<>>, pv |-> <<>>]
\* ok: some traversal order succeeds; res: the possible results; refuse: some traversal order refuses
Ok(S)  == [ok |-> TRUE, res |-> S, refuse |-> FALSE]
Error  == [ok |-> FALSE, res |-> {}, refuse |-> TRUE]

RECURSIVE PathUp(_, _)
PathUp(m, n) == IF n = m.root THEN <<n>> ELSE <<n>> \o PathUp(m, m.par[n])

-----------------------------------------------------------------------------
(* Reroot (tree.go Reroot / ReorderEdges): the branches on the path from the *)
(* new root to the old one are reversed, each keeping its decorations.      *)

RerootM(m, n) ==
  LET path == PathUp(m, n)
      k    == Len(path)
      on   == {path[i] : i \in 2..k}
      pos(x) == CHOOSE i \in 1..k : path[i] = x
      mv(f, nil) == [x \in m.nodes |-> IF x = n THEN nil
                                       ELSE IF x \in on THEN f[path[pos(x) - 1]] ELSE f[x]]
  IN  [nodes |-> m.nodes, root |-> n, nm |-> m.nm,
       par |-> [x \in m.nodes |-> IF x = n THEN 0 ELSE IF x \in on THEN path[pos(x) - 1] ELSE m.par[x]],
       len |-> mv(m.len, NIL), sup |-> mv(m.sup, NIL), pv |-> mv(m.pv, NIL)]

Reroot(m, n) == IF DegM(m, n) < 2 THEN Error ELSE Ok({RerootM(m, n)})

\* RerootFirst: the first node (traversal order) with three neighbours
RerootFirst(m) ==
  LET c == {n \in m.nodes : DegM(m, n) = 3}
  IN  IF c = {} THEN Error ELSE Ok({RerootM(m, n) : n \in c})

-----------------------------------------------------------------------------
(* UnRoot (tree.go UnRoot): the bifurcating root disappears, its two        *)
(* branches are joined (lengths added, support = max, only between two      *)
(* inner nodes); the new pseudo-root is the first non-tip child.            *)

UnRootSet(m) ==
  IF DegM(m, m.root) # 2 THEN {m}
  ELSE LET ks   == KidsM(m, m.root)
           c1   == CHOOSE c \in ks : TRUE
           c2   == CHOOSE c \in ks : c # c1
           l    == JoinLen(m.len[c1], m.len[c2])
           inn  == ~GoTip(m, c1) /\ ~GoTip(m, c2)
           s    == IF inn /\ (m.sup[c1] # NIL \/ m.sup[c2] # NIL)
                   THEN MaxI(MaxI(0, m.sup[c1]), MaxI(0, m.sup[c2])) ELSE NIL
           join(r, o) == Drop(MakeRoot(SetBr(m, o, r, l, s, NIL), r), {m.root})
           \* n1 := Neigh()[0]; if n1 is a tip the root goes to n2, else to n1
           cands == IF GoTip(m, c1) /\ GoTip(m, c2) THEN ks
                    ELSE {c \in ks : ~GoTip(m, c)}
       IN  {join(r, CHOOSE o \in ks : o # r) : r \in cands}

UnRoot(m) == Ok(UnRootSet(m))

-----------------------------------------------------------------------------
(* RemoveTips / removeTip (tree.go): per-tip removal with suppression of    *)
(* the resulting degree-2 node.                                             *)

\* result of removing tip t: a set (choice of the new pseudo-root when the root loses a child),
\* or {} when the code returns an error
\* case 1 of removeTip: a node that is not the root and has lost its only child disappears too, and so on upwards
\* (a chain of single-child nodes above the removed tip)
RECURSIVE Climb(_, _)
Climb(m, p) == IF p # m.root /\ KidsM(m, p) = {} THEN Climb(Drop(m, {p}), m.par[p]) ELSE <<m, p>>

RemoveTipM(m, t) ==
  LET cl == Climb(Drop(m, {t}), m.par[t])
      m1 == cl[1]
      p  == cl[2]
      ks == KidsM(m1, p)
  IN  IF p = m.root
      THEN IF Cardinality(ks) = 1
           THEN \* the root of a rooted tree lost a child: its other child becomes the root
                LET c == CHOOSE c \in ks : TRUE IN {Drop(MakeRoot(m1, c), {p})}
           ELSE IF Cardinality(ks) = 2
           THEN \* pseudo-root with two remaining children: they are joined, a non-tip one becomes the root
                LET c1 == CHOOSE c \in ks : TRUE
                    c2 == CHOOSE c \in ks : c # c1
                    l  == JoinLen(m1.len[c1], m1.len[c2])
                    s  == IF (m1.sup[c1] # NIL \/ m1.sup[c2] # NIL) /\ ~GoTip(m1, c1) /\ ~GoTip(m1, c2)
                          THEN MaxI(m1.sup[c1], m1.sup[c2]) ELSE NIL
                    join(r, o) == Drop(MakeRoot(SetBr(m1, o, r, l, s, NIL), r), {p})
                    \* n1 = neigh[0] if it is not a tip, else n2 if it is not a tip, else error
                    cands == {c \in ks : ~GoTip(m1, c)}
                IN  {join(r, CHOOSE o \in ks : o # r) : r \in cands}
           ELSE {m1}
      ELSE IF Cardinality(ks) = 1
           THEN \* p became a degree-2 inner node: its two branches are joined
                LET c == CHOOSE c \in ks : TRUE
                    g == m1.par[p]
                    l == JoinLen(m1.len[p], m1.len[c])
                    \* a support only between two non-tip nodes
                    s == IF (m1.sup[p] # NIL \/ m1.sup[c] # NIL) /\ ~GoTip(m1, c) /\ DegM(m1, g) > 1
                         THEN MaxI(m1.sup[p], m1.sup[c]) ELSE NIL
                IN  {Drop(SetBr(m1, c, g, l, s, NIL), {p})}
           ELSE {m1}

RECURSIVE RemoveAll(_, _)
RemoveAll(ms, names) ==
  IF ms = {} THEN {}
  ELSE LET m  == CHOOSE x \in ms : TRUE
           ts == {t \in TipsM(m) : m.nm[t] \in names}
       IN  IF \A x \in ms : {t \in TipsM(x) : x.nm[t] \in names} = {}
           THEN ms
           ELSE RemoveAll(UNION {IF {t \in TipsM(x) : x.nm[t] \in names} = {} THEN {x}
                                 ELSE RemoveTipM(x, CHOOSE t \in TipsM(x) : x.nm[t] \in names) : x \in ms}, names)

RemoveTips(m, names, revert) ==
  LET all == {m.nm[t] : t \in TipsM(m)}
      rm  == IF revert THEN all \ names ELSE all \cap names
      r   == RemoveAll({m}, rm)
  IN  IF r = {} THEN Error ELSE Ok(r)

-----------------------------------------------------------------------------
(* Collapse: RemoveEdges on the branches selected by the criterion.         *)

RemoveEdgeM(m, n) ==
  \* contract the branch above inner node n: its children move to its parent
  LET p == m.par[n]
  IN  Drop([m EXCEPT !.par = [x \in m.nodes |-> IF m.par[x] = n THEN p ELSE m.par[x]]], {n})

RECURSIVE RemoveEdgesM(_, _, _, _)
RemoveEdgesM(m, sel, rmRoot, rmTips) ==
  IF sel = {} THEN m
  ELSE LET n == CHOOSE x \in sel : TRUE
           rest == sel \ {n}
       IN  IF GoTip(m, n)
           THEN RemoveEdgesM(IF rmTips THEN [m EXCEPT !.len[n] = 0] ELSE m, rest, rmRoot, rmTips)
           ELSE IF ~rmRoot /\ (DegM(m, n) = 2 \/ DegM(m, m.par[n]) = 2)
           THEN RemoveEdgesM(m, rest, rmRoot, rmTips)
           ELSE RemoveEdgesM(RemoveEdgeM(m, n), rest, rmRoot, rmTips)

BranchNodes(m) == m.nodes \ {m.root}

CollapseShortBranches(m, thr, rmRoot, rmTips) ==
  \* e.Length() <= length : an absent length is the number -1 and is therefore selected
  Ok({RemoveEdgesM(m, {n \in BranchNodes(m) : m.len[n] <= thr}, rmRoot, rmTips)})

CollapseLowSupport(m, thr, rmRoot) ==
  Ok({RemoveEdgesM(m, {n \in BranchNodes(m) : m.sup[n] # NIL /\ m.sup[n] < thr}, rmRoot, FALSE)})

CollapseTopoDepth(m, lo, hi, rmRoot, rmTips) ==
  LET V == MView(m)
  IN  Ok({RemoveEdgesM(m, {n \in BranchNodes(m) : TopoDepthOf(V, n) >= lo /\ TopoDepthOf(V, n) <= hi}, rmRoot, rmTips)})

-----------------------------------------------------------------------------
(* Resolve: every node with more than three neighbours gets its surplus     *)
(* neighbours paired under new zero-length, support-less branches.  The     *)
(* pairing is random in the code; the model takes one canonical pairing     *)
(* (conformance for this call is by the property predicates only).          *)

RECURSIVE ResolveNode(_, _)
ResolveNode(m, n) ==
  IF DegM(m, n) <= 3 THEN m
  ELSE LET ks == KidsM(m, n)
           a  == Max(ks)
           b  == Max(ks \ {a})
           f  == FreshId(m)
           m1 == AddNode(m, f, n, "", 0, NIL, NIL)
           m2 == [m1 EXCEPT !.par[a] = f, !.par[b] = f]
       IN  ResolveNode(m2, n)

RECURSIVE ResolveAll(_, _)
ResolveAll(m, todo) ==
  IF todo = {} THEN m
  ELSE LET n == CHOOSE x \in todo : TRUE IN ResolveAll(ResolveNode(m, n), todo \ {n})

Resolve(m) == Ok({ResolveAll(m, m.nodes)})

-----------------------------------------------------------------------------
(* RemoveSingleNodes: inner nodes (not the root) with one child disappear;  *)
(* the child's branch gets the sum of the lengths that exist and the larger *)
(* support.                                                                 *)

RECURSIVE RemoveSingleM(_)
RemoveSingleM(m) ==
  LET S == {n \in m.nodes \ {m.root} : Cardinality(KidsM(m, n)) = 1}
  IN  IF S = {} THEN m
      ELSE \* post-order: take a lowest one
           LET n == CHOOSE x \in S : \A y \in S : x \notin (ChainR(m.par, m.root, y, Cardinality(m.nodes)) \ {y})
               c == CHOOSE c \in KidsM(m, n) : TRUE
               l == JoinLen(m.len[c], m.len[n])
               s == MaxI(m.sup[c], m.sup[n])
           IN  RemoveSingleM(Drop(SetBr(m, c, m.par[n], l, s, m.pv[c]), {n}))

RemoveSingleNodes(m) == Ok({RemoveSingleM(m)})

-----------------------------------------------------------------------------
(* RerootOutGroup (algo.go): unroot; LCA of the outgroup seen from a tip    *)
(* outside it; new root in the middle of the separating branch, or removal  *)
(* of the outgroup side.                                                    *)

OutGroupFrom(u, S, strict, remove, temproot) ==
  \* the traversal starts at the neighbour of the temporary root tip, with no predecessor
  LET r   == u.par[temproot]
      m2  == RerootM(u, r)
      V   == MView(m2)
      \* lowest node whose subtree holds all of S
      cand == {n \in m2.nodes : S \subseteq V.below[n]}
      n   == CHOOSE x \in cand : \A y \in cand : Cardinality(V.anc[x]) >= Cardinality(V.anc[y])
      E   == {c \in KidsM(m2, n) : V.below[c] \cap S # {}}
      covered == UNION {V.below[c] : c \in E}
      mono == IF n \in V.tips THEN TRUE ELSE covered \subseteq S
  IN  IF ~mono /\ strict THEN {ErrTree}
      ELSE
      LET \* the branch on which the root is put, named by its child end x (parent end y) in m2;
          \* side = the end that holds the LCA
          xs == IF n \in V.tips THEN {n}
                ELSE IF DegM(m2, n) - Cardinality(E) # 1 THEN {}
                ELSE IF n = r THEN KidsM(m2, n) \ E      \* the single child outside the outgroup
                ELSE {n}                                  \* all children selected: the branch above n
      IN  IF xs = {} THEN {ErrTree}
          ELSE
          LET x == CHOOSE c \in xs : TRUE
              y == m2.par[x]
              lcaSideIsX == (x = n)
          IN  IF ~remove
              THEN LET m3 == RerootM(m2, y)
                       L  == m3.len[x]
                       s  == m3.sup[x]
                       f  == FreshId(m3)
                       half == IF L # NIL THEN L \div 2 ELSE NIL      \* a negative or zero length is halved too
                       hs == IF L > 0 THEN s ELSE NIL
                       m4 == AddNode(m3, f, 0, "", NIL, NIL, NIL)
                       m5 == SetBr(SetBr(m4, x, f, half, hs, NIL), y, f, half, hs, NIL)
                   IN  {[m5 EXCEPT !.root = f]}
              ELSE \* the side holding the LCA is deleted, the other end becomes the root
                   IF lcaSideIsX
                   THEN LET gone == {z \in m2.nodes : x \in V.anc[z]}
                            m3 == RerootM(m2, y)
                        IN  IF Cardinality(KidsM(m3, y) \ {x}) < 2 THEN {ErrTree}
                            ELSE {Drop(m3, gone)}
                   ELSE LET keep == {z \in m2.nodes : x \in V.anc[z]}
                        IN  IF Cardinality(KidsM(m2, x)) < 2 THEN {ErrTree}
                            ELSE {MakeRoot(Keep(m2, keep), x)}

RerootOutGroup(m, names, strict, remove) ==
  LET us  == UnRootSet(m)
      u0  == CHOOSE u \in us : TRUE
      all == {u0.nm[t] : t \in TipsM(u0)}
      S   == names \cap all
      res == UNION {UNION {OutGroupFrom(u, S, strict, remove, t) : t \in {t \in TipsM(u) : u.nm[t] \notin S}} : u \in us}
  IN  IF S = {} \/ S = all THEN Error
      ELSE [ok |-> (res \ {ErrTree}) # {}, res |-> res \ {ErrTree}, refuse |-> ErrTree \in res]

-----------------------------------------------------------------------------
(* RerootMidPoint: unroot, take a longest tip-to-tip path, walk it from one *)
(* end and put the root on the first branch where the walked length reaches *)
(* half the total.  Which longest path and which end are traversal          *)
(* dependent: the model returns all of them.                                *)

MidFrom(u, a, b) ==
  \* walk from tip a towards tip b in the tree re-rooted next to a
  LET m2   == RerootM(u, u.par[a])
      V    == MView(m2)
      up   == PathUp(m2, b)                    \* b ... root(m2) = neighbour of a
      \* branches in walking order, each named by <<child end, towards-b?>>: first the branch of a
      walk == <<a>> \o Reverse(SubSeq(up, 1, Len(up) - 1))
      lens == [i \in 1..Len(walk) |-> Num(m2.len[walk[i]])]
      RECURSIVE Pre(_)
      Pre(i) == IF i = 0 THEN 0 ELSE Pre(i - 1) + lens[i]
      total == Pre(Len(walk))
      \* first branch index at which 2*walked >= total (at least the first branch)
      \* the code adds branches while the walked length is below half the total, at least one
      idx  == CHOOSE i \in 1..Len(walk) : 2 * Pre(i) >= total /\ \A j \in 1..(i - 1) : 2 * Pre(j) < total
      x    == walk[idx]
      y    == m2.par[x]
      cut2 == 2 * Pre(idx) - total              \* twice the distance from the far end of the branch
      \* node1 = the end reached first when walking from a, node2 = the other end
      first == IF idx = 1 THEN x ELSE y         \* the branch of a is walked from the tip up, the others downwards
      lenFirst  == (2 * lens[idx] - cut2)       \* twice the length on the side of node1
      m3   == RerootM(m2, y)
      f    == FreshId(m3)
      m4   == AddNode(m3, f, 0, "", NIL, NIL, NIL)
      s    == m3.sup[x]
      l1   == IF idx = 1 THEN lenFirst \div 2 ELSE cut2 \div 2       \* branch to x
      l2   == IF idx = 1 THEN cut2 \div 2 ELSE lenFirst \div 2       \* branch to y
      m5   == SetBr(SetBr(m4, x, f, l1, s, NIL), y, f, l2, s, NIL)
  IN  [m5 EXCEPT !.root = f]

RerootMidPoint(m) ==
  LET us == UnRootSet(m)      \* the tree is unrooted first: only then must every branch have a length
      good == {u \in us : \A n \in u.nodes \ {u.root} : u.len[n] # NIL}
      res(u) == LET V  == MView(u)
                    dm == DistMat(V)
                    diam == MaxOf({dm[p] : p \in DOMAIN dm})
                    tb == TipByName(V)
                    ends == {p \in DOMAIN dm : dm[p] = diam /\ p[1] # p[2]}
                IN  {MidFrom(u, tb[p[1]], tb[p[2]]) : p \in ends}
  IN  IF good = {} THEN Error
      ELSE [ok |-> TRUE, res |-> UNION {res(u) : u \in good}, refuse |-> good # us]

-----------------------------------------------------------------------------
(* GraftTipOnEdge, InsertIdenticalTips                                      *)

GraftTipOnEdge(m, x, name) ==
  \* a new node in the middle of the branch above x, the new tip hanging from it with length 1
  LET y  == m.par[x]
      f  == FreshId(m)
      g  == f + 1
      L  == m.len[x]
      h  == IF L = NIL THEN NIL ELSE L \div 2
      m1 == AddNode(m, f, y, "", h, m.sup[x], m.pv[x])
      m2 == AddNode(m1, g, f, name, 1048576, NIL, NIL)
  IN  Ok({SetBr(m2, x, f, h, NIL, NIL)})

InsertTipM(m, t, name) ==
  IF m.len[t] = 0
  THEN AddNode(m, FreshId(m), m.par[t], name, 0, NIL, NIL)
  ELSE LET f  == FreshId(m)
           g  == f + 1
           m1 == AddNode(m, f, m.par[t], "", m.len[t], m.sup[t], m.pv[t])
           m2 == AddNode(m1, g, f, name, 0, NIL, NIL)
       IN  SetBr(m2, t, f, 0, NIL, NIL)

RECURSIVE InsertGroup(_, _, _)
InsertGroup(m, t, news) ==
  IF news = <<>> THEN m ELSE InsertGroup(InsertTipM(m, t, Head(news)), t, Tail(news))

\* groups: sequence of sequences of names with exactly one existing member each
RECURSIVE InsertGroups(_, _)
InsertGroups(m, groups) ==
  IF groups = <<>> \/ m.root = 0 THEN m
  ELSE LET g   == Head(groups)
           all == {m.nm[t] : t \in TipsM(m)}
           old == {i \in 1..Len(g) : g[i] \in all}
       IN  IF Cardinality(old) # 1 THEN ErrTree
           ELSE LET o == CHOOSE i \in old : TRUE
                    t == CHOOSE t \in TipsM(m) : m.nm[t] = g[o]
                    news == SelectSeq(g, LAMBDA z : z # g[o])
                    r == InsertGroup(m, t, news)
                IN  InsertGroups(r, Tail(groups))

InsertIdenticalTips(m, groups) ==
  LET r == InsertGroups(m, groups) IN IF r.root = 0 THEN Error ELSE Ok({r})

-----------------------------------------------------------------------------
(* NNI around the branch above inner node x (both ends with 3 neighbours):  *)
(* one neighbour of each end is exchanged; two distinct results.            *)

NNIAround(m, x) ==
  LET y  == m.par[x]
      kx == KidsM(m, x)
      \* neighbours of y other than x: its other children and, if any, its parent side
      ky == KidsM(m, y) \ {x}
      swapKid(a, b) == [m EXCEPT !.par[a] = y, !.par[b] = x]     \* child a of x <-> child b of y
      \* exchanging a child of x with the parent side of y = moving the other child of x up to y and the
      \* other child of y down to x (the same unrooted topology)
  IN  IF ky = {} THEN {}
      ELSE LET b == CHOOSE c \in ky : TRUE
           IN  {swapKid(a, b) : a \in kx}

NNISites(m) == {x \in m.nodes \ {m.root} : DegM(m, x) = 3 /\ DegM(m, m.par[x]) = 3}

-----------------------------------------------------------------------------
(* Value operations: the shape is untouched, the decorations are mapped.    *)
(* (growth of the model beyond the listed properties: conformance only)     *)

SelBr(m, n, internal, external) == n # m.root /\ ((IsTipM(m, n) /\ external) \/ (~IsTipM(m, n) /\ internal))
ClearLengthsM(m, internal, external) ==
  Ok({[m EXCEPT !.len = [n \in m.nodes |-> IF SelBr(m, n, internal, external) THEN NIL ELSE m.len[n]]]})
\* ClearSupports also forgets the p-values
ClearSupportsM(m) ==
  Ok({[m EXCEPT !.sup = [n \in m.nodes |-> NIL], !.pv = [n \in m.nodes |-> NIL]]})
\* factor = num / 2 (the drivers use 1/2, 1, 2 so that the product is exact); absent lengths stay absent
ScaleLengthsM(m, num, internal, external) ==
  Ok({[m EXCEPT !.len = [n \in m.nodes |-> IF SelBr(m, n, internal, external) /\ m.len[n] # NIL THEN (m.len[n] * num) \div 2 ELSE m.len[n]]]})
\* simultaneous substitution on every named node (the node index is built before the first name changes); refused
\* when names collide
RenameM(m, from, to) ==
  LET new(n) == IF m.nm[n] # "" /\ \E i \in 1..Len(from) : from[i] = m.nm[n]
                THEN to[CHOOSE i \in 1..Len(from) : from[i] = m.nm[n]] ELSE m.nm[n]
  IN  [ok |-> TRUE, res |-> {[m EXCEPT !.nm = [n \in m.nodes |-> new(n)]]}, refuse |-> TRUE]

-----------------------------------------------------------------------------
(* Dispatch: op is a record with field `op` and the arguments of the call,  *)
(* shaped like the events of a recorded trace.                              *)

Apply(m, ev) ==
  CASE ev.op = "Reroot"        -> Reroot(m, ev.args.node)
    [] ev.op = "RerootFirst"   -> RerootFirst(m)
    [] ev.op = "UnRoot"        -> UnRoot(m)
    [] ev.op = "RerootOutGroup" -> RerootOutGroup(m, SeqRange(ev.args.names), ev.args.strict, ev.args.remove)
    [] ev.op = "RerootMidPoint" -> RerootMidPoint(m)
    [] ev.op = "RemoveTips"    -> RemoveTips(m, SeqRange(ev.args.names), ev.args.revert)
    [] ev.op = "CollapseShortBranches" -> CollapseShortBranches(m, ev.args.thr, ev.args.root, ev.args.tips)
    [] ev.op = "CollapseLowSupport"    -> CollapseLowSupport(m, ev.args.thr, ev.args.root)
    [] ev.op = "CollapseTopoDepth"     -> CollapseTopoDepth(m, ev.args.min, ev.args.max, ev.args.root, ev.args.tips)
    [] ev.op = "Resolve"       -> Resolve(m)
    [] ev.op = "RemoveSingleNodes" -> RemoveSingleNodes(m)
    [] ev.op = "InsertIdenticalTips" -> InsertIdenticalTips(m, ev.args.groups)
    [] ev.op = "ClearLengths"  -> ClearLengthsM(m, ev.args.internal, ev.args.external)
    [] ev.op = "ClearSupports" -> ClearSupportsM(m)
    [] ev.op = "ScaleLengths"  -> ScaleLengthsM(m, ev.args.num, ev.args.internal, ev.args.external)
    [] ev.op = "Rename"        -> RenameM(m, ev.args.from, ev.args.to)
    [] ev.op \in {"RotateInternalNodes", "RotateNeighbors", "SortNeighborsByTips", "Clone", "ReinitIndexes"} -> Ok({m})
    [] OTHER -> [ok |-> TRUE, res |-> {ErrTree}, refuse |-> TRUE]

\* calls whose result the model determines up to the unrooted canonical form / exactly
Modelled(ev) == ev.op \in {"Reroot", "RerootFirst", "UnRoot", "RerootOutGroup", "RerootMidPoint", "RemoveTips",
                           "CollapseShortBranches", "CollapseLowSupport", "CollapseTopoDepth", "RemoveSingleNodes",
                           "InsertIdenticalTips", "RotateInternalNodes", "RotateNeighbors", "SortNeighborsByTips",
                           "Clone", "ReinitIndexes", "ClearLengths", "ClearSupports", "ScaleLengths", "Rename"}
\* ... of which these also determine the position of the root
RootExact(ev) == ev.op \in {"Reroot", "CollapseShortBranches", "CollapseLowSupport", "CollapseTopoDepth",
                            "RemoveSingleNodes", "InsertIdenticalTips", "RotateInternalNodes", "RotateNeighbors",
                            "SortNeighborsByTips", "Clone", "ReinitIndexes", "RerootOutGroup", "RerootMidPoint",
                            "ClearLengths", "ClearSupports", "ScaleLengths", "Rename"}

-----------------------------------------------------------------------------
(* Judgement of one step by the listed properties (shared by the model run  *)
(* and the trace validation).  ev: [op, args]; V, W: views before / after.  *)

AsSet(s) == SeqRange(s)

C05Fails(ev, V, W) ==
  CASE ev.op \in {"Reroot", "RerootFirst", "UnRoot", "RotateInternalNodes", "RotateNeighbors", "SortNeighborsByTips"}
         -> F_SameTree(V, W)
    [] ev.op = "RerootOutGroup"
         -> F_OutGroup(V, W, AsSet(ev.args.names) \cap V.names, ev.args.strict, ev.args.remove)
    [] ev.op = "RerootMidPoint" -> F_MidPoint(V, W)
    [] OTHER -> {}

C06Fails(ev, V, W) ==
  IF ev.op = "RemoveTips"
  THEN F_Prune(V, W, AsSet(ev.args.names), ev.args.revert)
  ELSE {}

\* the exact-set claim is made on trees free of single-child inner nodes
C07Fails(ev, V, W) ==
  IF SingleNodes(V) # {} THEN {}
  ELSE
  CASE ev.op = "CollapseShortBranches"
         -> LET inn  == InnerNonRoot(V)
                must == {n \in inn : BrOf(V, n).len # NIL /\ BrOf(V, n).len <= ev.args.thr}
                may  == {n \in inn : BrOf(V, n).len = NIL}
            IN  F_CollapseR(V, W, must, may, ~ev.args.tips, ev.args.root)
    [] ev.op = "CollapseLowSupport"
         -> LET inn  == InnerNonRoot(V)
                must == {n \in inn : BrOf(V, n).sup # NIL /\ BrOf(V, n).sup < ev.args.thr}
            IN  F_CollapseR(V, W, must, {}, TRUE, ev.args.root)
    [] ev.op = "CollapseTopoDepth"
         -> LET inn  == InnerNonRoot(V)
                must == {n \in inn : TopoDepthOf(V, n) >= ev.args.min /\ TopoDepthOf(V, n) <= ev.args.max}
            IN  F_CollapseR(V, W, must, {}, ~ev.args.tips, ev.args.root)
    [] ev.op = "Resolve" -> F_Resolve(V, W)
    [] OTHER -> {}

C15LocalFails(ev, V, W) ==
  CASE ev.op = "InsertIdenticalTips" -> F_Identical(V, W, ev.args.groups)
    [] ev.op = "RemoveSingleNodes"   -> F_RemoveSingle(V, W)
    [] OTHER -> {}

=============================================================================
