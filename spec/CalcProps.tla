----------------------------- MODULE CalcProps -----------------------------
(***************************************************************************)
(* Layer P for the computing entry points: distance matrices and length     *)
(* clusters (C14), tree comparison (C08), consensus (C09), bootstrap        *)
(* supports (C10).  Every predicate recomputes the result from the          *)
(* definitions of Trees.tla on the views of the input trees and compares it *)
(* with what the real code returned (or what the model computes).           *)
(*                                                                          *)
(* Quotients (means, frequencies) are logged in units of 10^-4 and compared *)
(* with the exact rational num/den:  |v*den - num*10^4| <= den.             *)
(***************************************************************************)
EXTENDS EditProps

AbsN(x) == IF x < 0 THEN -x ELSE x
QNear(v, num, den) == AbsN(v * den - num * 10000) <= den
NIL4    == -10000          \* an absent value in 10^-4 units
UnitOne == 1048576         \* 1.0 in units of 2^-20

SumOver(S, F(_)) == MapThenSumSet(F, S)
MinOf(S) == CHOOSE x \in S : \A y \in S : x <= y

BagOfSeq(s)      == [v \in SeqRange(s) |-> Cardinality({i \in 1..Len(s) : s[i] = v})]
BagOfSet(S, F(_)) == [v \in {F(x) : x \in S} |-> Cardinality({x \in S : F(x) = v})]

-----------------------------------------------------------------------------
(* C14: distance matrices and length-threshold clusters                     *)

BrWeight(metric, b) ==
  CASE metric = "brlen" -> Num(b.len)
    [] metric = "boot"  -> IF b.sup = NIL THEN UnitOne ELSE b.sup
    [] OTHER            -> UnitOne
DistBy(V, metric, a, b) == SumOver(PathNodes(V, a, b), LAMBDA n : BrWeight(metric, BrOf(V, n)))

MatrixShape(res) == LET n == Len(res.names) IN Len(res.m) = n /\ \A i \in 1..n : Len(res.m[i]) = n

F_DistMatrix(T, V, metric, res) ==
  LET n == Len(res.names)
  IN  Fail("MatrixRowsInNameOrder", res.names = T.rank)
      \cup Fail("MatrixShape", MatrixShape(res))
      \cup (IF MatrixShape(res) /\ SeqRange(res.names) = V.names /\ n = Cardinality(V.names)
            THEN LET tb == TLCEval(TipByName(V))
                 IN  Fail("MatrixEntries",
                          \A i, j \in 1..n : res.m[i][j] = DistBy(V, metric, tb[res.names[i]], tb[res.names[j]]))
                     \cup Fail("MatrixSymmetricZeroDiagonal",
                               \A i, j \in 1..n : res.m[i][j] = res.m[j][i] /\ res.m[i][i] = 0)
            ELSE {"MatrixTips"})

\* palette scale of each metric: every branch weight is a multiple of u units; 1.0 = d of them
Scale(metric) ==
  CASE metric = "brlen" -> [u |-> 32768, d |-> 32]
    [] metric = "boot"  -> [u |-> 16384, d |-> 64]
    [] OTHER            -> [u |-> 1048576, d |-> 1]

F_AvgMatrix(Ts, Vs, metric, res) ==
  LET k  == Len(Vs)
      n  == Len(res.names)
      sc == Scale(metric)
  IN  Fail("MatrixRowsInNameOrder", res.names = Ts[1].rank)
      \cup Fail("MatrixShape", MatrixShape(res))
      \cup (IF MatrixShape(res) /\ n = Cardinality(Vs[1].names) /\ \A t \in 1..k : Vs[t].names = SeqRange(res.names)
            THEN LET tb == TLCEval([t \in 1..k |-> TipByName(Vs[t])])
                 IN  Fail("AverageEntries",
                          \A i, j \in 1..n :
                             QNear(res.m[i][j],
                                   SumOver(1..k, LAMBDA t : DistBy(Vs[t], metric, tb[t][res.names[i]], tb[t][res.names[j]]) \div sc.u),
                                   sc.d * k))
            ELSE {"MatrixTips"})

\* tips reachable from tip a through branches shorter than thr
CompOf(V, thr, a) == {b \in V.tips : \A n \in PathNodes(V, a, b) : Num(BrOf(V, n).len) < thr}

\* (a root with a single neighbour is a tip too for gotree: a tree hanging from a named tip)
TipsG(V) == V.tips \cup (IF V.deg[V.root] = 1 THEN {V.root} ELSE {})
CompOfG(V, thr, a) == {b \in TipsG(V) : \A n \in PathNodes(V, a, b) : Num(BrOf(V, n).len) < thr}
F_TipBags(V, thr, bags) ==
  LET got == {SeqRange(bags[i]) : i \in 1..Len(bags)}
      exp == {{V.nm[b] : b \in CompOfG(V, thr, a)} : a \in TipsG(V)}
  IN  Fail("BagsPartitionTheTips",
           /\ \A i \in 1..Len(bags) : NoDupSeq(bags[i]) /\ bags[i] # <<>>
           /\ Cardinality(got) = Len(bags)
           /\ SumOver(1..Len(bags), LAMBDA i : Len(bags[i])) = Cardinality(TipsG(V))
           /\ UNION got = {V.nm[t] : t \in TipsG(V)})
      \cup Fail("BagsAreLengthComponents", got = exp)

-----------------------------------------------------------------------------
(* C08: comparison counts are set differences of splits                     *)

CmpSplits(V, tips) == IF tips THEN Splits(V) ELSE NTSplits(V)

F_Compare(Vr, Vc, tips, identical, res) ==
  IF Vr.names # Vc.names THEN Fail("CompareRejectsOtherTaxa", res.err)
  ELSE IF res.err THEN {"CompareAcceptsSameTaxa"}
  ELSE LET R == CmpSplits(Vr, tips)
           C == CmpSplits(Vc, tips)
       IN  Fail("CompareOneRecordPerTree", res.n = 1 /\ res.id = 0)
           \cup Fail("SameTreeIffNoDifference", res.same = (R = C))
           \cup (IF identical THEN {}
                 ELSE Fail("CountOnlyReference", res.tree1 = Cardinality(R \ C))
                      \cup Fail("CountCommon", res.common = Cardinality(R \cap C))
                      \cup Fail("CountOnlyCompared", res.tree2 = Cardinality(C \ R)))

\* Tree.CommonEdges (pairwise search) and Edge.FindEdge over all branches
F_CommonEdges(Vr, Vc, tips, res) ==
  LET R == CmpSplits(Vr, tips)
      C == CmpSplits(Vc, tips)
  IN  Fail("CommonEdgesOnlyReference", res.tree1 = Cardinality(R \ C))
      \cup Fail("CommonEdgesCommon", res.common = Cardinality(R \cap C))
      \cup Fail("FindEdgeFindsExactlyTheSharedSplits", res.found_all = Cardinality(Splits(Vr) \cap Splits(Vc)))

\* the Robinson-Foulds distance printed by `compare trees --rf`
F_CompareRF(Vr, Vc, tips, res) ==
  LET R == CmpSplits(Vr, tips)
      C == CmpSplits(Vc, tips)
  IN  Fail("RobinsonFouldsIsSymmetricDifference", res.rf = Cardinality(R \ C) + Cardinality(C \ R))

\* `compare trees --weighted`: wRF = sum |l_ref - l_cmp| over shared splits + lengths of unshared ones (exact on dyadic lengths;
\* the printed value has 7 significant digits, enough for multiples of 1/16 below 10^5); KF is zero exactly when wRF is
F_CompareWeightedCLI(Vr, Vc, tips, res) ==
  LET R  == CmpSplits(Vr, tips)
      C  == CmpSplits(Vc, tips)
      lr == SplitLen(Vr)
      lc == SplitLen(Vc)
      exp == SumOver(R \cap C, LAMBDA s : AbsN(lr[s] - lc[s])) + SumOver(R \ C, LAMBDA s : lr[s]) + SumOver(C \ R, LAMBDA s : lc[s])
  IN  Fail("WeightedRobinsonFoulds", res.wrf = exp)
      \cup Fail("BranchScoreZeroIffIdentical", ~res.kfneg /\ (res.kfzero = (exp = 0)))

F_CompareWeighted(Vr, Vc, tips, res) ==
  IF Vr.names # Vc.names THEN Fail("CompareRejectsOtherTaxa", res.err)
  ELSE IF res.err THEN {"CompareAcceptsSameTaxa"}
  ELSE LET R  == CmpSplits(Vr, tips)
           C  == CmpSplits(Vc, tips)
           lr == SplitLen(Vr)
           lc == SplitLen(Vc)
       IN  Fail("WeightedOnlyReference", BagOfSeq(res.ref) = BagOfSet(R \ C, LAMBDA s : lr[s]))
           \cup Fail("WeightedOnlyCompared", BagOfSeq(res.comp) = BagOfSet(C \ R, LAMBDA s : lc[s]))
           \cup Fail("WeightedCommonDifferences", BagOfSeq(res.common) = BagOfSet(R \cap C, LAMBDA s : lr[s] - lc[s]))
           \cup Fail("WeightedSameTree",
                     /\ res.same => R = C
                     /\ (R = C /\ \A s \in R : lr[s] = lc[s]) => res.same)

-----------------------------------------------------------------------------
(* C09: the consensus contains exactly the sufficiently frequent splits     *)

\* SS[i] = splits of tree i, SL[i] = split -> length of tree i
CountIn(SS, s)   == Cardinality({i \in DOMAIN SS : s \in SS[i]})
\* (in units of 1/32: the lengths of the generated trees are multiples of 1/16, the negative ones odd multiples of 1/32)
SumLen16(SS, SL, s) == SumOver(DOMAIN SS, LAMBDA i : IF s \in SS[i] THEN SL[i][s] \div 32768 ELSE 0)
Frequent(SS, num, den) ==
  LET n == Len(SS)
  IN  {s \in UNION {SS[i] : i \in 1..n} : NonTrivial(s) /\ (CountIn(SS, s) * den > num * n \/ CountIn(SS, s) = n)}

\* the split s of tree V carries a length (on one of the branches that carry it)
HasLen(V, s) == \E x \in Carriers(V, s) : BrOf(V, x).len # NIL

\* lenPred: the name under which the length predicate is reported.  "ConsensusLengths" on collections whose trees carry all
\* their lengths or none; on collections where some trees give a split no length, the mean is taken over the trees that
\* give it one ("ConsensusLengthsOverTreesThatHaveOne": gotree averages its absent value -1 in, a recorded known finding)
F_ConsensusNamed(Vs, num, den, W, res, lenPred) ==
  LET n  == Len(Vs)
      SS == TLCEval([i \in 1..n |-> Splits(Vs[i])])
      SL == TLCEval([i \in 1..n |-> SplitLen(Vs[i])])
      With(s) == {i \in 1..n : s \in SS[i] /\ HasLen(Vs[i], s)}
  IN  Fail("ConsensusTips", W.names = Vs[1].names /\ UniqueNames(W))
      \cup Fail("ConsensusSplits", NTSplits(W) = Frequent(SS, num, den))
      \cup Fail("ConsensusSupports",
                \A x \in NonRoot(W) \ W.tips :
                   LET s == SplitOf(W, x) IN NonTrivial(s) => QNear(res.sup4[W.br[x].id], CountIn(SS, s), n))
      \cup Fail(lenPred,
                \A x \in NonRoot(W) :
                   LET s == SplitOf(W, x)
                       c == CountIn(SS, s)
                       P == With(s)
                   IN  (c > 0 /\ Cardinality(Carriers(W, s)) = 1) =>
                         IF P = {} THEN res.len4[W.br[x].id] = NIL4
                         ELSE QNear(res.len4[W.br[x].id], SumOver(P, LAMBDA i : SL[i][s] \div 32768), 32 * Cardinality(P)))
      \cup Fail("ConsensusTipsWithoutSupport", \A x \in W.tips : res.sup4[W.br[x].id] = NIL4)

F_Consensus(Vs, num, den, W, res) == F_ConsensusNamed(Vs, num, den, W, res, "ConsensusLengths")

-----------------------------------------------------------------------------
(* C10: Felsenstein and transfer supports                                   *)

LightSide(s, N) == CHOOSE x \in s : Cardinality(x) * 2 <= N
\* minimum number of taxa to move so that the side L matches some branch of the bootstrap tree B
TransferTo(L, B, N) ==
  MinOf({LET h == Cardinality(SymDiff(L, B.below[n])) IN IF h <= N - h THEN h ELSE N - h : n \in NonRoot(B)})

FBPValue(s, BS) == [num |-> CountIn(BS, s), den |-> Len(BS)]
TBEValue(s, Bs, N) ==
  LET L == LightSide(s, N)
      p == Cardinality(L)
      n == Len(Bs)
      tot == SumOver(1..n, LAMBDA i : TransferTo(L, Bs[i], N))
  IN  [num |-> n * (p - 1) - tot, den |-> n * (p - 1)]

F_Support(method, Vr, Bs, W, res) ==
  LET N  == Cardinality(Vr.names)
      BS == TLCEval([i \in 1..Len(Bs) |-> Splits(Bs[i])])
  IN  Fail("SupportKeepsTree", W.names = Vr.names /\ Splits(W) = Splits(Vr))
      \cup Fail("SupportTipsWithout", \A x \in W.tips : res.sup4[W.br[x].id] = NIL4)
      \cup Fail(method \o "EqualsDefinition",
                \A x \in NonRoot(W) \ W.tips :
                   LET s == SplitOf(W, x)
                       v == IF method = "FBP" THEN FBPValue(s, BS) ELSE TBEValue(s, Bs, N)
                   IN  NonTrivial(s) => QNear(res.sup4[W.br[x].id], v.num, v.den))
      \cup Fail("SupportInUnitInterval",
                \A x \in NonRoot(W) \ W.tips :
                   NonTrivial(SplitOf(W, x)) => res.sup4[W.br[x].id] >= 0 /\ res.sup4[W.br[x].id] <= 10000)

=============================================================================
