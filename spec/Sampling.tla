------------------------------ MODULE Sampling ------------------------------
(***************************************************************************)
(* Layer M for the random selections of gotree (C20) and the random tree    *)
(* generators (C16), one machine per algorithm, one step per processed      *)
(* element, one draw (or K draws) per step:                                 *)
(*                                                                          *)
(*  reservoir   sample -n K without replacement / prune --random K          *)
(*              element i (0-based): i < K fills slot i, else j in 0..i     *)
(*              replaces slot j when j < K                                  *)
(*  replace     sample --replace: for element number t (1-based) every slot *)
(*              draws r in 0..t-1 and takes the element when r = 0          *)
(*  perm        rand.Perm as used by ShuffleTips (inside-out shuffle)       *)
(*  rotate      Node.RotateNeighbors (forward Fisher-Yates)                 *)
(*  utree/rtree RandomUniformBinaryTree: tip i is grafted on a uniformly    *)
(*              chosen branch (rooted: or above the root)                   *)
(*                                                                          *)
(* Every draw of a step has a range that does not depend on the history, so *)
(* all draw sequences of a given length are equiprobable and the            *)
(* probability of an outcome is proportional to the number of draw          *)
(* sequences that produce it.  The model is therefore LIFTED: the state     *)
(* variable `dist` is the whole distribution after i elements, as a         *)
(* function  outcome -> number of draw sequences;  Next pushes it through   *)
(* one step.  TLC checks exactly (no statistics) that it is uniform on the  *)
(* required support at every size of the bound.                             *)
(*                                                                          *)
(* The same step function, driven by LOGGED draws (Run), is what the trace  *)
(* specification uses to check that the real code is this algorithm.        *)
(***************************************************************************)
EXTENDS SamplingDef

CONSTANTS Algo, N, K

VARIABLES i, dist
vars == <<i, dist>>

-----
(* the lifted machine                                                       *)

Push(d, e) ==
  LET succ(s) == {<<j, Step(Algo, K, s, e, j)>> : j \in Draws(Algo, K, s, e)}
      all     == UNION {{p[2] : p \in succ(s)} : s \in DOMAIN d}
  IN  [t \in all |-> SumOverS(DOMAIN d, LAMBDA s : d[s] * Cardinality({p \in succ(s) : p[2] = t}))]

Init == LET st == Start(Algo, N, K) IN i = st.e /\ dist = (st.s :> 1)
Next == i < N /\ dist' = Push(dist, i) /\ i' = i + 1
Spec == Init /\ [][Next]_vars

-----------------------------------------------------------------------------
(* exact uniformity                                                         *)

AllEqual(f) == \A a, b \in DOMAIN f : f[a] = f[b]
Aggregate(d, Key(_)) == [v \in {Key(s) : s \in DOMAIN d} |-> SumOverS({s \in DOMAIN d : Key(s) = v}, LAMBDA s : d[s])]
RECURSIVE Fact(_)
Fact(n) == IF n <= 1 THEN 1 ELSE n * Fact(n - 1)
RECURSIVE OddF(_)
OddF(n) == IF n <= 1 THEN 1 ELSE n * OddF(n - 2)
Choose(n, k) == Fact(n) \div (Fact(k) * Fact(n - k))

Uniform ==
  CASE Algo = "reservoir" ->
         \* every K-subset of the i elements seen so far (all of them while i <= K) with the same weight
         LET bySet == Aggregate(dist, LAMBDA s : SeqRangeS(s))
         IN  /\ AllEqual(bySet)
             /\ DOMAIN bySet = (IF i <= K THEN {0..(i - 1)} ELSE {S \in SUBSET (0..(i - 1)) : Cardinality(S) = K})
    [] Algo = "replace" ->
         i >= 1 => AllEqual(dist) /\ DOMAIN dist = [1..K -> 0..(i - 1)]
    [] Algo = "perm" ->
         AllEqual(dist) /\ Cardinality(DOMAIN dist) = Fact(i) /\ \A s \in DOMAIN dist : SeqRangeS(s) = 0..(i - 1)
    [] Algo = "rotate" ->
         i = N => AllEqual(dist) /\ Cardinality(DOMAIN dist) = Fact(N)
    [] Algo = "utree" ->
         \* i tips: every unrooted labelled binary topology, (2i-5)!! of them, with the same weight
         LET byTopo == Aggregate(dist, LAMBDA s : SeqRangeS(s))
         IN  i >= 3 => AllEqual(byTopo) /\ Cardinality(DOMAIN byTopo) = OddF(2 * i - 5)
    [] Algo = "rtree" ->
         LET byTopo == Aggregate(dist, LAMBDA s : SeqRangeS(s))
         IN  AllEqual(byTopo) /\ Cardinality(DOMAIN byTopo) = OddF(2 * i - 3)
    [] OTHER -> TRUE

\* in particular every element has a non-zero chance of being selected
EveryElementSelectable ==
  Algo \in {"reservoir", "replace"} /\ i >= 1 =>
    \A x \in 0..(i - 1) : \E s \in DOMAIN dist : x \in SeqRangeS(s)

=============================================================================
