------------------------------ MODULE GenModel ------------------------------
(***************************************************************************)
(* Layer M for the random tree generators (C16): successive insertion of    *)
(* tips, every choice of the insertion branch explored (not lifted: here    *)
(* the question is the shape of every reachable tree, not its probability,  *)
(* which is Sampling.tla's).                                                *)
(*   uniform      any branch (rooted: or above the root)                    *)
(*   yule         any tip branch                                            *)
(*   caterpillar  the branch of the tip inserted last                       *)
(* A tree under construction is the list of its branches (clusters below    *)
(* them), as in SamplingDef.  Invariants: the clusters always form a binary *)
(* tree on the tips inserted so far; a caterpillar's inner nodes form a     *)
(* path.  Every reachable (generator, size, rootedness) is printed as a     *)
(* case for the harness, which runs the real generator with several seeds.  *)
(***************************************************************************)
EXTENDS SamplingDef, Json

CONSTANTS Gen, Rooted, MaxTips, Emit

VARIABLES s, k      \* branches, number of tips
vars == <<s, k>>

Tips == 0..(k - 1)
Full == IF Rooted THEN Tips ELSE Tips \ {0}      \* unrooted: clusters are seen from Tip0

Init == IF Rooted THEN s = <<{1}, {0}>> /\ k = 2 ELSE s = <<{1}>> /\ k = 2

TipBranches == {j \in 0..(Len(s) - 1) : Cardinality(s[j + 1]) = 1}
Allowed ==
  CASE Gen = "uniform"     -> 0..(Len(s) - 1) \cup (IF Rooted THEN {Len(s)} ELSE {})
    [] Gen = "yule"        -> TipBranches \cup (IF Rooted THEN {} ELSE {j \in 0..(Len(s) - 1) : s[j + 1] = Full})   \* Tip0's branch
    [] Gen = "caterpillar" -> {j \in 0..(Len(s) - 1) : s[j + 1] = {k - 1}}
    [] OTHER -> {}

Next == /\ k < MaxTips
        /\ \E j \in Allowed : s' = Step(IF Rooted THEN "rtree" ELSE "utree", 0, s, k, j)
        /\ k' = k + 1
Spec == Init /\ [][Next]_vars

EmitCase == Emit => PrintT("CASE|" \o ToJson([fam |-> "C16", pat |-> 0, ref |-> [root |-> 0, nodes |-> <<>>], trees |-> <<>>,
                                              extra |-> [gen |-> Gen, n |-> k, rooted |-> Rooted]]))

-----------------------------------------------------------------------------
C == SeqRangeS(s) \cup (IF Rooted THEN {Tips} ELSE {})
Laminar == \A a, b \in C : a \subseteq b \/ b \subseteq a \/ a \cap b = {}
\* children of cluster c: maximal clusters strictly inside
Kids(c) == {d \in C : d # c /\ d \subseteq c /\ ~\E x \in C : x # c /\ x # d /\ d \subseteq x /\ x \subseteq c}

IsBinaryTree ==
  /\ Laminar
  /\ \A t \in Full : {t} \in C
  /\ Len(s) = Cardinality(SeqRangeS(s))                       \* no branch listed twice
  /\ Len(s) = (IF Rooted THEN 2 * k - 2 ELSE 2 * k - 3)        \* number of branches of a binary tree
  /\ \A c \in C : Cardinality(c) > 1 => Cardinality(Kids(c)) = 2

\* caterpillar: every inner cluster has at most one inner child (the inner nodes form a path)
IsCaterpillar ==
  Gen = "caterpillar" => \A c \in C : Cardinality({d \in Kids(c) : Cardinality(d) > 1}) <= 1

=============================================================================
