------------------------------ MODULE Splitter ------------------------------
(***************************************************************************)
(* Layer M for the multi-tree Newick stream reader (C13, C02):              *)
(* fileutils.ReadUntilSemiColon and the loop of utils.ReadMultiTrees.       *)
(*                                                                          *)
(* A document is a sequence of lines; a line is a sequence of characters    *)
(* "x" (anything else), ";" and " " (blank or tab).  ReadUntilSemiColon     *)
(* appends lines to a buffer until the last non-blank character of the      *)
(* buffer is ';' or the input ends; the scan back over trailing blanks      *)
(* stops at the beginning of the buffer.  ReadMultiTrees calls it until it  *)
(* reports the end of input and parses every returned group.                *)
(*                                                                          *)
(* State: lines consumed, groups returned so far, the scan-back index       *)
(* reached during the last call.  Invariants: the index never leaves the    *)
(* buffer (no crash), every call consumes at least one line or ends         *)
(* (termination), and the groups are exactly the consecutive chunks of the  *)
(* document ending at each line whose last non-blank character is ';' -     *)
(* nothing skipped, nothing duplicated, order kept.                         *)
(* Direction A: every document of the bound is printed as a case; the       *)
(* harness feeds the same lines to the real ReadUntilSemiColon /            *)
(* ReadMultiTrees and compares the groups.                                  *)
(***************************************************************************)
EXTENDS SplitterDef, Json

CONSTANTS MaxLines, MaxLen, Emit

VARIABLES doc, pos, groups, minidx, done
vars == <<doc, pos, groups, minidx, done>>

Chars == {"x", ";", " ", "\t"}
RECURSIVE SeqsUpTo(_)
SeqsUpTo(n) == IF n = 0 THEN {<<>>} ELSE LET S == SeqsUpTo(n - 1) IN S \cup {Append(s, c) : s \in {t \in S : Len(t) = n - 1}, c \in Chars}
Lines == SeqsUpTo(MaxLen)
Docs == UNION {[1..k -> Lines] : k \in 0..MaxLines}

Init == doc \in Docs /\ pos = 1 /\ groups = <<>> /\ minidx = 1 /\ done = FALSE

Call ==
  /\ ~done
  /\ LET r == ReadFrom(doc, pos, <<>>, 1)
     IN  /\ pos' = r.next
         /\ minidx' = IF r.idx < minidx THEN r.idx ELSE minidx
         /\ IF r.eof THEN done' = TRUE /\ groups' = groups      \* the remainder is not parsed
            ELSE done' = FALSE /\ groups' = Append(groups, r.buf)
  /\ UNCHANGED doc
Spec == Init /\ [][Call]_vars

-----------------------------------------------------------------------------
Flat(s) == FoldLeft(LAMBDA a, b : a \o b, <<>>, s)
LastNonBlank(l) == LET nb == {i \in 1..Len(l) : l[i] \notin {" ", "\t"}} IN IF nb = {} THEN "0" ELSE l[CHOOSE i \in nb : \A j \in nb : j <= i]

NoIndexUnderflow == minidx >= 1
Progress == pos <= Len(doc) + 1 /\ (done => pos = Len(doc) + 1)
\* what has been returned so far is the document up to the last consumed ';'-ending buffer, cut at those points
GroupsAreTheChunks ==
  LET consumed == SubSeq(doc, 1, pos - 1)
  IN  /\ \A g \in 1..Len(groups) : LastNonBlank(groups[g]) = ";"
      /\ (~done => Flat(groups) = Flat(consumed))
      /\ (done => \E r \in 0..Len(doc) : Flat(groups) = Flat(SubSeq(doc, 1, r))
                                          /\ \A i \in (r + 1)..Len(doc) : LastNonBlank(Flat(SubSeq(doc, r + 1, i))) # ";")

EmitDoc == (Emit /\ pos = 1 /\ groups = <<>> /\ ~done) => PrintT("CASE|" \o ToJson([fam |-> "C13split", lines |-> doc]))

=============================================================================
