------------------------------- MODULE Newick -------------------------------
(***************************************************************************)
(* Layer M (state machine) for the Newick reader: the parser is fed one     *)
(* token at a time, every token of the alphabet in every state (C02: the    *)
(* reader is total - every (state, token) pair has a defined outcome,       *)
(* error or progress, and the end of input always terminates it), and every *)
(* tree the parser can build within the bound is written back and parsed    *)
(* again (C01: Parse(Write(D)) = D and a second write gives the same        *)
(* tokens).                                                                 *)
(* Direction A: every transition is printed as a case (token sequence +     *)
(* the model's outcome) and fed, as text, to the real parser; every         *)
(* accepted tree is a case for the real writer.                             *)
(***************************************************************************)
EXTENDS NewickDef, Json

CONSTANTS MaxToks, Emit

VARIABLES st, hist
vars == <<st, hist>>

V1 == 1
V2 == 2
Alphabet ==
  {P("("), P(")"), P(","), P(";"), P("]"), P("eof"),
   Word("a", 0, NILV, NILV), Word("0.25/b", 0, NILV, NILV),     \* a plain name, and a name that starts like a support/p-value
   Word("", 1, V1, NILV), Word("", 2, V1, V2),
   LenTok(TRUE, V2), LenTok(FALSE, NILV), CmTok(TRUE, "c"), CmTok(FALSE, "c")}

\* a word cannot directly follow a word or a length (the lexer would read one longer word)
Feasible(h, tok) == ~(tok.k = "w" /\ Len(h) > 0 /\ h[Len(h)].k \in {"w", "len"})

Init == st = InitState /\ hist = <<>>
Feed(tok) ==
  /\ st.phase \notin {"ok", "err"} /\ Len(hist) < MaxToks /\ Feasible(hist, tok)
  /\ st' = ParseStep(st, tok) /\ hist' = Append(hist, tok)
Next == \E tok \in Alphabet : Feed(tok)
Spec == Init /\ [][Next]_vars

StateView == st

-----------------------------------------------------------------------------
\* the domain of C01: what Write is specified for
InDomain(D) ==
  /\ Len(D) >= 3 /\ Len(D[1].ch) >= 2
  /\ \A n \in 1..Len(D) :
       /\ (D[n].ch = <<>>) => D[n].nm # ""
       /\ (D[n].ch # <<>> /\ n # 1) => ~(D[n].nm # "" /\ D[n].sup # NILV)
       /\ D[n].pv # NILV => D[n].sup # NILV
       /\ D[n].ch = <<>> => D[n].sup = NILV
       /\ D[n].ecm # <<>> => (D[n].len # NILV /\ Len(D[n].ecm) = 1)
       /\ Len(D[n].ch) # 1

\* C02 (model level): the machine is total and every state is well-typed
Total == st.phase \in {"pre", "pre2", "run", "ok", "err"} /\ st.level >= -MaxToks

\* C01 (model level): every accepted tree of the domain survives write + parse, and writes identically again
RoundTrip ==
  (st.phase = "ok" /\ InDomain(st.N)) =>
     LET w == Write(st.N)
         p == Parse(w)
     IN  p.phase = "ok" /\ p.N = st.N /\ Write(p.N) = w

EmitTransition ==
  Emit => LET r == Parse(hist')
          IN  PrintT("CASE|" \o ToJson([fam |-> "C02nw", toks |-> hist', ok |-> (r.phase = "ok"), tree |-> r.N,
                                        indomain |-> (r.phase = "ok" /\ InDomain(r.N))]))

=============================================================================
