----------------------------- MODULE ParsProps -----------------------------
(***************************************************************************)
(* Layer P for parsimony reconstruction (C12).                              *)
(*                                                                          *)
(* Definitions: the minimum number of state changes on a tree whose tips    *)
(* hold state SETS ("any of these states") is computed by a Sankoff table   *)
(* (cost[n][s] = minimum number of changes below n when n holds s), built   *)
(* bottom-up; MPR(n) = states s such that forcing n to s still reaches the  *)
(* global minimum.  Both are plain dynamic programming over the view of the *)
(* tree; they know nothing of the up-pass / down-pass heuristics of the     *)
(* code, whose transcription lives in ParsModel.tla.                        *)
(***************************************************************************)
EXTENDS CalcProps, SequencesExt

INF == 100000

\* children before parents: deeper nodes first (distinct keys)
PostOrder(V) ==
  LET key(n) == Cardinality(V.anc[n]) * 10000 - n
  IN  SetToSortSeq(V.nodes, LAMBDA a, b : key(a) > key(b))

KidsFn(V) == [n \in V.nodes |-> Children(V, n)]

RECURSIVE SankoffFold(_, _, _, _, _, _)
SankoffFold(kids, States, allowed, order, i, tbl) ==
  IF i > Len(order) THEN tbl
  ELSE LET n   == order[i]
           row == TLCEval([s \in States |->
                     IF s \notin allowed[n] THEN INF
                     ELSE SumOver(kids[n], LAMBDA c : MinOf({tbl[c][s2] + (IF s2 = s THEN 0 ELSE 1) : s2 \in States}))])
       IN  SankoffFold(kids, States, allowed, order, i + 1, tbl @@ (n :> row))

\* minimum number of changes when node n may only hold a state of allowed[n]
MinCostWith(V, kids, order, States, allowed) ==
  LET t == SankoffFold(kids, States, allowed, order, 1, [x \in {} |-> 0])
  IN  MinOf({t[V.root][s] : s \in States})

\* tipsets: tip node -> set of states; inner nodes are free
AllowedOf(V, States, tipsets) == [n \in V.nodes |-> IF n \in V.tips THEN tipsets[n] ELSE States]

MinSteps(V, States, tipsets) ==
  MinCostWith(V, KidsFn(V), PostOrder(V), States, AllowedOf(V, States, tipsets))

\* total[n][s] = minimum number of changes of the whole tree when n holds s, top-down from the down table:
\* total[root] = down[root];  total[n][s] = down[n][s] + min over the parent's state sp of
\*   [sp # s] + total[p][sp] - (what n contributed to down[p][sp])
RECURSIVE TotalFold(_, _, _, _, _, _)
TotalFold(V, States, down, order, i, tot) ==
  IF i < 1 THEN tot
  ELSE LET n == order[i]
           row == IF n = V.root THEN down[n]
                  ELSE LET p == V.par[n]
                           contrib == TLCEval([sp \in States |-> MinOf({down[n][s2] + (IF s2 = sp THEN 0 ELSE 1) : s2 \in States})])
                       IN  TLCEval([s \in States |->
                              IF down[n][s] >= INF THEN INF
                              ELSE down[n][s] + MinOf({(IF sp = s THEN 0 ELSE 1) + tot[p][sp] - contrib[sp] : sp \in States})])
       IN  TotalFold(V, States, down, order, i - 1, tot @@ (n :> row))

\* inner node -> set of states it holds in at least one most-parsimonious reconstruction
MPRSets(V, States, tipsets) ==
  LET kids  == TLCEval(KidsFn(V))
      order == TLCEval(PostOrder(V))
      al    == AllowedOf(V, States, tipsets)
      down  == TLCEval(SankoffFold(kids, States, al, order, 1, [x \in {} |-> 0]))
      tot   == TLCEval(TotalFold(V, States, down, order, Len(order), [x \in {} |-> 0]))
      best  == MinOf({down[V.root][s] : s \in States})
  IN  [n \in Inner(V) |-> {s \in States : tot[n][s] = best}]

\* the same sets by the definition itself (forcing the node and recomputing): used by the model to
\* check the two-pass computation above
MPRSetsByForcing(V, States, tipsets) ==
  LET kids  == TLCEval(KidsFn(V))
      order == TLCEval(PostOrder(V))
      al    == AllowedOf(V, States, tipsets)
      best  == MinCostWith(V, kids, order, States, al)
  IN  [n \in Inner(V) |-> {s \in States : s \in al[n] /\ MinCostWith(V, kids, order, States, [al EXCEPT ![n] = {s}]) = best}]

\* number of changes of a full assignment asg : node -> state
CostOf(V, asg) == Cardinality({n \in NonRoot(V) : asg[n] # asg[V.par[n]]})

-----------------------------------------------------------------------------
(* Judgement of one reconstruction.  st : node -> reported set of states.   *)

F_ParsCore(V, States, tipsets, algo, steps, st, judgeTips) ==
  LET best == MinSteps(V, States, tipsets)
      mpr  == TLCEval(MPRSets(V, States, tipsets))
  IN  Fail("StepsAreMinimal", steps = best)
      \cup (IF judgeTips THEN Fail("TipStatesUnaltered", \A t \in V.tips : st[t] = tipsets[t]) ELSE {})
      \cup Fail("ReportedStatesAreMostParsimonious", \A n \in Inner(V) : st[n] # {} /\ st[n] \subseteq mpr[n])
      \cup (IF algo = "DOWNPASS" THEN Fail("DownpassReportsAllMPRStates", \A n \in Inner(V) : st[n] = mpr[n]) ELSE {})
      \cup Fail("UnambiguousOutputIsOptimal",
                (\A n \in V.nodes : Cardinality(st[n]) = 1) =>
                   CostOf(V, [n \in V.nodes |-> CHOOSE s \in st[n] : TRUE]) = best)

\* args.tips : sequence of <<name, state>>; res.states : node id -> sequence of states; res.steps
F_Parsimony(V, args, res) ==
  LET States  == SeqRange(args.alphabet)
      byname  == [i \in 1..Len(args.tips) |-> args.tips[i][1]]
      tipsets == [t \in V.tips |-> {args.tips[i][2] : i \in {j \in 1..Len(args.tips) : byname[j] = V.nm[t]}}]
      st      == [n \in V.nodes |-> SeqRange(res.states[n])]
  IN  F_ParsCore(V, States, tipsets, args.algo, res.steps, st, TRUE)
      \* the returned name -> states map says the same as the node comments
      \cup (IF "bymap" \in DOMAIN res
            THEN Fail("ReturnedMapAgreesWithNodeStates", \A n \in Inner(V) : SeqRange(res.bymap[n]) = st[n])
            ELSE {})

\* sequence variant: args.sets[t][j] = allowed states of tip (by rank in args.names) at site j;
\* res.steps[j]; res.states[n][j] = reported states of node n at site j; res.single[j] = what the
\* single-character reconstruction reported for site j (only logged for unambiguous alignments)
F_ParsimonySeq(V, args, res) ==
  LET States == {"A", "C", "G", "T"}
      idx(t) == CHOOSE i \in 1..Len(args.names) : args.names[i] = V.nm[t]
      m      == args.nsites
  IN  UNION {
        LET tipsets == [t \in V.tips |-> SeqRange(args.sets[idx(t)][j])]
            st      == [n \in V.nodes |-> SeqRange(res.states[n][j])]
        IN  IF args.ambiguous
            THEN Fail("SiteStepsAreMinimal", res.steps[j] = MinSteps(V, States, tipsets))
            ELSE F_ParsCore(V, States, tipsets, args.algo, res.steps[j], st, TRUE)
                 \cup Fail("SequenceAgreesWithSingleCharacter",
                           /\ res.single[j].steps = res.steps[j]
                           /\ \A n \in V.nodes : SeqRange(res.single[j].states[n]) = st[n])
        : j \in 1..m}

=============================================================================
