----------------------------- MODULE SamplingDef -----------------------------
(***************************************************************************)
(* The step functions of the random selection machines (see Sampling.tla)   *)
(* and their deterministic replay with logged draws.  No constants, no      *)
(* variables: shared by the lifted model and by the trace specification.    *)
(***************************************************************************)
EXTENDS Integers, Sequences, FiniteSets, FiniteSetsExt, SequencesExt, TLC

SumOverS(S, F(_)) == MapThenSumSet(F, S)
SeqRangeS(s) == {s[x] : x \in 1..Len(s)}

-----------------------------------------------------------------------------
(* one step of each machine: state after element e with draw j              *)

\* number of outcomes of the draw made for element e (0-based) in state s; 0 = no draw is made
RangeOf(algo, k, s, e) ==
  CASE algo = "reservoir" -> IF e < k THEN 0 ELSE e + 1
    [] algo = "replace"   -> e + 1                       \* each of the k draws of element number e+1
    [] algo = "perm"      -> e + 1
    [] algo = "rotate"    -> e + 1
    [] algo = "utree"     -> Len(s)                      \* one of the branches
    [] algo = "rtree"     -> Len(s) + 1                  \* one of the branches, or above the root
    [] OTHER              -> 0

Draws(algo, k, s, e) ==
  CASE algo = "replace" -> [1..k -> 0..e]
    [] OTHER -> IF RangeOf(algo, k, s, e) = 0 THEN {0} ELSE 0..(RangeOf(algo, k, s, e) - 1)

\* A tree under construction is the LIST of its branches in the order the generator keeps them, each branch
\* being the cluster (set of tip numbers) below it.  Grafting tip x on branch number j+1: every cluster containing
\* that cluster gains x (the upper half keeps the list position), the new tip's branch and the lower half are appended.
GraftAt(s, j, x) ==
  LET c == s[j + 1]
  IN  [y \in 1..Len(s) |-> IF c \subseteq s[y] THEN s[y] \cup {x} ELSE s[y]] \o <<{x}, c>>

Step(algo, k, s, e, j) ==
  CASE algo = "reservoir" -> IF e < k THEN Append(s, e) ELSE IF j < k THEN [s EXCEPT ![j + 1] = e] ELSE s
    [] algo = "replace"   -> [x \in 1..k |-> IF j[x] = 0 THEN e ELSE s[x]]
    [] algo = "perm"      -> \* m[i] = m[j]; m[j] = i
                             LET m1 == Append(s, IF j = e THEN e ELSE s[j + 1])
                             IN  [m1 EXCEPT ![j + 1] = e]
    [] algo = "rotate"    -> [s EXCEPT ![e + 1] = s[j + 1], ![j + 1] = s[e + 1]]
    [] algo = "utree"     -> GraftAt(s, j, e)
    [] algo = "rtree"     -> IF j = Len(s) THEN s \o <<UNION SeqRangeS(s), {e}>>    \* new root above the old one
                             ELSE GraftAt(s, j, e)
    [] OTHER -> s

Start(algo, n, k) ==
  CASE algo = "reservoir" -> [e |-> 0, s |-> <<>>]
    [] algo = "replace"   -> [e |-> 0, s |-> [x \in 1..k |-> -1]]
    [] algo = "perm"      -> [e |-> 0, s |-> <<>>]
    [] algo = "rotate"    -> [e |-> 0, s |-> [x \in 1..n |-> x - 1]]
    [] algo = "utree"     -> [e |-> 2, s |-> <<{1}>>]          \* Tip0 - Tip1, seen from Tip0
    [] algo = "rtree"     -> [e |-> 2, s |-> <<{1}, {0}>>]     \* the cherry (Tip1, Tip0) under the root
    [] OTHER -> [e |-> 0, s |-> <<>>]

\* deterministic replay with logged draws, one entry per processed element: [n |-> range, v |-> value]
\* (replace: n, v are sequences of k).  ok: every logged range is the one the machine prescribes.
RECURSIVE RunFrom(_, _, _, _, _, _, _)
RunFrom(algo, k, s, e, draws, x, ok) ==
  IF x > Len(draws) THEN [s |-> s, ok |-> ok]
  ELSE LET d  == draws[x]
           r  == RangeOf(algo, k, s, e)
           okx == IF algo = "replace" THEN \A y \in 1..k : d.n[y] = r /\ d.v[y] \in 0..(r - 1)
                  ELSE IF r = 0 THEN TRUE ELSE d.n = r /\ d.v \in 0..(r - 1)
       IN  IF ~okx THEN [s |-> s, ok |-> FALSE]
           ELSE RunFrom(algo, k, Step(algo, k, s, e, d.v), e + 1, draws, x + 1, ok)
Run(algo, n, k, draws) == LET st == Start(algo, n, k) IN RunFrom(algo, k, st.s, st.e, draws, 1, TRUE)

=============================================================================
