------------------------------- MODULE Trees -------------------------------
(***************************************************************************)
(* Layer D: the mathematical vocabulary of the gotree specification.        *)
(*                                                                          *)
(* A tree value T is the abstract copy of gotree's own data structure with  *)
(* pointers replaced by identifiers (DESIGN.md 1.3):                        *)
(*   T.root : node id                                                       *)
(*   T.N    : sequence of nodes  [nm, nb (neighbour ids, stored order),     *)
(*                                br (incident branch ids, same order), cm] *)
(*   T.E    : sequence of branches [l (parent end), r (child end),          *)
(*                                  len, sup, pv, cm]                       *)
(* The same record shape is used for states of the operational models and   *)
(* for states logged from the real code (the Go projection), so every       *)
(* predicate below is evaluated by TLC on both.                             *)
(*                                                                          *)
(* Numbers are integers: lengths/supports in units of 2^-20; NIL = absent.  *)
(***************************************************************************)
EXTENDS Integers, Sequences, FiniteSets, FiniteSetsExt, TLC

NIL     == -1
INEXACT == -2
Num(x)  == IF x = NIL THEN 0 ELSE x   \* an absent length read as the number 0 (path lengths)

SeqRange(s) == {s[i] : i \in 1..Len(s)}
NodeIds(T)  == 1..Len(T.N)
EdgeIds(T)  == 1..Len(T.E)
Deg(T, n)   == Len(T.N[n].nb)
NoDupSeq(s) == \A i, j \in 1..Len(s) : i # j => s[i] # s[j]

-----------------------------------------------------------------------------
(* Structural well-formedness (C03): connected, acyclic, symmetric          *)
(* adjacency, every branch pointing away from the root.                     *)

RefsOK(T) ==
  /\ T.root \in NodeIds(T)
  /\ \A n \in NodeIds(T) :
       /\ Len(T.N[n].nb) = Len(T.N[n].br)
       /\ \A i \in 1..Len(T.N[n].nb) : T.N[n].nb[i] \in NodeIds(T)
       /\ \A i \in 1..Len(T.N[n].br) : T.N[n].br[i] \in EdgeIds(T)
  /\ \A e \in EdgeIds(T) : T.E[e].l \in NodeIds(T) /\ T.E[e].r \in NodeIds(T)

\* neighbour i of n is joined to n by branch br[i], whose two ends are exactly n and that neighbour,
\* and the neighbour lists n with the same branch
AdjOK(T) ==
  \A n \in NodeIds(T) : \A i \in 1..Deg(T, n) :
     LET m == T.N[n].nb[i]
         e == T.N[n].br[i]
     IN  /\ m # n
         /\ {T.E[e].l, T.E[e].r} = {n, m}
         /\ \E j \in 1..Deg(T, m) : T.N[m].nb[j] = n /\ T.N[m].br[j] = e

NoMulti(T) == \A n \in NodeIds(T) : NoDupSeq(T.N[n].nb) /\ NoDupSeq(T.N[n].br)

\* every branch is known to both of its ends
EdgeUsed(T) ==
  \A e \in EdgeIds(T) :
     /\ e \in SeqRange(T.N[T.E[e].l].br)
     /\ e \in SeqRange(T.N[T.E[e].r].br)

CountOK(T) == Len(T.E) = Len(T.N) - 1

ParIdxs(T, n) == {i \in 1..Deg(T, n) : T.E[T.N[n].br[i]].r = n}

\* the root has no parent branch, every other node exactly one
Oriented(T) ==
  /\ ParIdxs(T, T.root) = {}
  /\ \A n \in NodeIds(T) \ {T.root} : Cardinality(ParIdxs(T, n)) = 1

ParIdx(T, n) == CHOOSE i \in 1..Deg(T, n) : T.E[T.N[n].br[i]].r = n
ParOf(T)  == [n \in NodeIds(T) |-> IF n = T.root THEN 0 ELSE T.N[n].nb[ParIdx(T, n)]]
ParEOf(T) == [n \in NodeIds(T) |-> IF n = T.root THEN 0 ELSE T.N[n].br[ParIdx(T, n)]]

RECURSIVE ChainR(_, _, _, _)
ChainR(par, root, n, fuel) ==
  IF n = root THEN {n}
  ELSE IF fuel = 0 \/ n = 0 THEN {n, 0}
  ELSE {n} \cup ChainR(par, root, par[n], fuel - 1)

\* following parent branches from any node reaches the root (no cycle, nothing detached)
ReachOK(T) ==
  LET par == TLCEval(ParOf(T))
  IN  \A n \in NodeIds(T) : 0 \notin ChainR(par, T.root, n, Len(T.N))

\* names of the violated conjuncts, evaluated in an order that keeps later ones defined
WFBroken(T) ==
  IF ~RefsOK(T) THEN {"RefsOK"}
  ELSE LET a == (IF AdjOK(T) THEN {} ELSE {"AdjOK"})
               \cup (IF NoMulti(T) THEN {} ELSE {"NoMulti"})
               \cup (IF EdgeUsed(T) THEN {} ELSE {"EdgeUsed"})
               \cup (IF CountOK(T) THEN {} ELSE {"CountOK"})
               \cup (IF Oriented(T) THEN {} ELSE {"Oriented"})
       IN  IF a # {} THEN a
           ELSE IF ReachOK(T) THEN {} ELSE {"ReachOK"}

WellFormed(T) == WFBroken(T) = {}

-----------------------------------------------------------------------------
(* The semantic view of a tree: what every property predicate is phrased    *)
(* with.  It is representation independent: View(T) builds it from a        *)
(* (well-formed) pointer structure as logged from the real code, MView(m)   *)
(* in TreeOps.tla builds it from a state of the operational model.          *)
(*   nodes, root, par (0 for the root), nm, deg (number of neighbours),     *)
(*   br (branch above a node: [len, sup, pv, id]), anc (ancestor sets,      *)
(*   node included), tips, names, below (tip names under a node)            *)

View(T) ==
  LET par   == TLCEval(ParOf(T))
      pe    == TLCEval(ParEOf(T))
      anc   == TLCEval([n \in NodeIds(T) |-> ChainR(par, T.root, n, Len(T.N))])
      tips  == {n \in NodeIds(T) : Deg(T, n) = 1 /\ n # T.root}
      below == TLCEval([n \in NodeIds(T) |-> {T.N[t].nm : t \in {u \in tips : n \in anc[u]}}])
  IN  [nodes |-> NodeIds(T), root |-> T.root, par |-> par,
       nm  |-> [n \in NodeIds(T) |-> T.N[n].nm],
       deg |-> [n \in NodeIds(T) |-> Deg(T, n)],
       br  |-> [n \in NodeIds(T) |-> IF n = T.root THEN [len |-> NIL, sup |-> NIL, pv |-> NIL, id |-> 0, cm |-> <<>>]
                                     ELSE [len |-> T.E[pe[n]].len, sup |-> T.E[pe[n]].sup, pv |-> T.E[pe[n]].pv, id |-> pe[n], cm |-> T.E[pe[n]].cm]],
       anc |-> anc, tips |-> tips, names |-> {T.N[t].nm : t \in tips}, below |-> below]

NonRoot(V)     == V.nodes \ {V.root}
Inner(V)       == V.nodes \ V.tips               \* includes the root
UniqueNames(V) == Cardinality(V.names) = Cardinality(V.tips)
BrOf(V, n)     == V.br[n]                         \* the branch above a non-root node
Children(V, n) == {m \in NonRoot(V) : V.par[m] = n}
RootDeg(V)     == V.deg[V.root]
IsRooted(V)    == RootDeg(V) = 2
\* inner nodes other than the root with a single child
SingleNodes(V) == {n \in NonRoot(V) : V.deg[n] = 2}
\* the domain of the edit properties: root with >= 2 children, unique tip names
InDomain(V)    == RootDeg(V) >= 2 /\ UniqueNames(V) /\ Cardinality(V.tips) >= 2

\* Unrooted split induced by the branch above n, as an unordered pair of sides
SplitOf(V, n)  == {V.below[n], V.names \ V.below[n]}
Splits(V)      == {SplitOf(V, n) : n \in NonRoot(V)}
Trivial(s)     == \E x \in s : Cardinality(x) <= 1
NonTrivial(s)  == ~Trivial(s)
NTSplits(V)    == {s \in Splits(V) : NonTrivial(s)}
Carriers(V, s) == {n \in NonRoot(V) : SplitOf(V, n) = s}

\* split -> total length of the branches carrying it (the two root branches of a rooted tree, and
\* chains through single-child nodes, count as one branch)
SplitLen(V) == [s \in Splits(V) |-> MapThenSumSet(LAMBDA n : Num(BrOf(V, n).len), Carriers(V, s))]

\* split -> support, for the non-trivial splits carried by exactly one branch
SingleSup(V) ==
  LET S == {s \in NTSplits(V) : Cardinality(Carriers(V, s)) = 1}
  IN  [s \in S |-> BrOf(V, CHOOSE n \in Carriers(V, s) : TRUE).sup]
SingleLenRaw(V) ==
  LET S == {s \in Splits(V) : Cardinality(Carriers(V, s)) = 1}
  IN  [s \in S |-> BrOf(V, CHOOSE n \in Carriers(V, s) : TRUE).len]

TipByName(V) == [nm \in V.names |-> CHOOSE t \in V.tips : V.nm[t] = nm]

\* nodes whose parent branch lies on the path between a and b
PathNodes(V, a, b) == SymDiff(V.anc[a], V.anc[b])
Dist(V, a, b) == MapThenSumSet(LAMBDA n : Num(BrOf(V, n).len), PathNodes(V, a, b))
RootDist(V, a) == MapThenSumSet(LAMBDA n : Num(BrOf(V, n).len), V.anc[a] \ {V.root})

\* tip-name pair -> path length
DistMat(V) ==
  LET tb == TLCEval(TipByName(V))
  IN  [p \in V.names \X V.names |-> Dist(V, tb[p[1]], tb[p[2]])]
DistMatOn(V, K) ==
  LET tb == TLCEval(TipByName(V))
  IN  [p \in K \X K |-> Dist(V, tb[p[1]], tb[p[2]])]

RestrictSplit(s, K) == {x \cap K : x \in s}
\* the non-trivial splits induced on the tip subset K
InducedNT(V, K) == {r \in {RestrictSplit(s, K) : s \in Splits(V)} : Cardinality(r) = 2 /\ NonTrivial(r)}

Binary(V) ==
  /\ RootDeg(V) \in {2, 3}
  /\ \A n \in NonRoot(V) : V.deg[n] \in {1, 3}

\* Canonical rooted form: forgets ids and child order, keeps everything else that is observable.
Canon(V) ==
  [root  |-> [nm |-> V.nm[V.root], deg |-> RootDeg(V)],
   nn    |-> Cardinality(V.nodes),
   nodes |-> {[c |-> V.below[n], nm |-> V.nm[n], len |-> BrOf(V, n).len,
               sup |-> BrOf(V, n).sup, pv |-> BrOf(V, n).pv, deg |-> V.deg[n]] : n \in NonRoot(V)}]

\* Canonical unrooted form: split -> (total length, support when carried by one inner branch), plus
\* rootedness; forgets where the (pseudo-)root is.
UCanon(V) ==
  [rooted |-> IsRooted(V),
   len    |-> SplitLen(V),
   sup    |-> SingleSup(V)]

=============================================================================
