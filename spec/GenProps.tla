----------------------------- MODULE GenProps -----------------------------
(***************************************************************************)
(* Layer P for the tree generators and the topology enumerator (C16).       *)
(* T is the projection of the generated tree exactly as returned (index     *)
(* fields included: they must be ready for use without re-indexing).        *)
(***************************************************************************)
EXTENDS CalcProps

RECURSIVE Pow2G(_)
Pow2G(n) == IF n <= 0 THEN 1 ELSE 2 * Pow2G(n - 1)
RECURSIVE OddFact(_)
OddFact(k) == IF k <= 1 THEN 1 ELSE k * OddFact(k - 2)      \* k!! for odd k

DepthOf(V, n) == Cardinality(V.anc[n]) - 1
InnerNbs(V, n) == Cardinality({m \in Inner(V) : m # n /\ (V.par[m] = n \/ (n # V.root /\ V.par[n] = m))})

\* the star generator and its variants on given names (StarTreeFromName, StarTreeFromTree)
StarGens == {"star", "starnames", "startree"}
ShapeOK(V, args) ==
  CASE args.gen = "caterpillar" -> \A n \in Inner(V) : InnerNbs(V, n) <= 2
    [] args.gen = "balanced" ->
         IF args.rooted THEN \A t \in V.tips : DepthOf(V, t) = args.n
         ELSE \E x \in RootKids(V) : \A t \in V.tips : DepthOf(V, t) = IF x \in V.anc[t] THEN args.n ELSE args.n - 1
    [] args.gen \in StarGens -> Inner(V) = {V.root}
    [] OTHER -> TRUE

\* res.len4[e] : branch lengths in 10^-4 units (NIL4 when absent); res.ntips = number of tips requested
F_Generator(T, args, res) ==
  LET wf == WFBroken(T)
  IN  IF wf # {} THEN {"GeneratedWellFormed." \o w : w \in wf}
      ELSE LET V == View(T)
               N == res.ntips
           IN  Fail("GeneratedTipCount", Cardinality(V.tips) = N /\ UniqueNames(V) /\ \A t \in V.tips : V.nm[t] # "")
               \cup Fail("GeneratedBinaryAndRootedness",
                         IF args.gen \in StarGens THEN RootDeg(V) = N
                         ELSE Binary(V) /\ RootDeg(V) = (IF args.rooted THEN 2 ELSE 3))
               \cup Fail("GeneratedLengths", \A e \in EdgeIds(T) : res.len4[e] >= 0)
               \cup Fail("GeneratedShape", ShapeOK(V, args))
               \cup (IF "names" \in DOMAIN res THEN Fail("GeneratedOnTheGivenNames", V.names = SeqRange(res.names)) ELSE {})
               \cup F_IndexFresh(T, V, T.idx, T.rank)
               \cup F_Enum(T, V, T.enum)

\* trees : projections of all enumerated topologies
RootedCanon(V)   == {V.below[n] : n \in NonRoot(V)}
F_TopologiesOn(Ts, args) ==
  LET n  == args.n
      Vs == TLCEval([i \in 1..Len(Ts) |-> View(Ts[i])])
      names == Vs[1].names
  IN  Fail("TopologyCount", Len(Ts) = OddFact(IF args.rooted THEN 2 * n - 3 ELSE 2 * n - 5))
      \* with caller-supplied tip names: exactly those names, every tip named
      \cup (IF "names" \in DOMAIN args
            THEN Fail("TopologiesUseTheGivenNames",
                      \A i \in 1..Len(Ts) : Vs[i].names = SeqRange(args.names) /\ \A t \in Vs[i].tips : Vs[i].nm[t] # "")
            ELSE Fail("TopologiesNameEveryTip", \A i \in 1..Len(Ts) : \A t \in Vs[i].tips : Vs[i].nm[t] # ""))
      \cup Fail("TopologiesAreBinaryOnTheTips",
                \A i \in 1..Len(Ts) : /\ IF args.rooted
                                         \* a rooted topology is returned either with a bifurcating root or hanging from a
                                         \* root of degree one (the enumerator's representation): binary below it
                                         THEN \/ Binary(Vs[i]) /\ RootDeg(Vs[i]) = 2
                                              \/ RootDeg(Vs[i]) = 1 /\ \A x \in NonRoot(Vs[i]) : Vs[i].deg[x] \in {1, 3}
                                         ELSE Binary(Vs[i]) /\ RootDeg(Vs[i]) = 3
                                      /\ Vs[i].names = names /\ Cardinality(Vs[i].tips) = n /\ UniqueNames(Vs[i]))
      \cup Fail("TopologiesPairwiseDistinct",
                Cardinality({IF args.rooted THEN RootedCanon(Vs[i]) ELSE NTSplits(Vs[i]) : i \in 1..Len(Ts)}) = Len(Ts))
F_Topologies(args, res) == {}

=============================================================================
