#!/usr/bin/env python3
"""Orchestration kit for the gotree TLA+ verification framework.

Everything that decides is TLC evaluating the specifications in /verif/spec: on the operational
models (exhaustive, bounded) and on traces recorded from the real code by the Go harness.
This file only builds, runs, shards, parses and reports.

Exit codes of a check:  0 = property held on everything explored (known findings are listed),
                        1 = a VIOLATION line was printed, 2 = infrastructure problem (never a verdict).
"""
import concurrent.futures as cf
import glob
import hashlib
import json
import os
import re
import shutil
import subprocess
import sys
import time

VERIF = os.path.dirname(os.path.dirname(os.path.abspath(__file__)))
REPO = os.environ.get("VERIF_REPO", "/repo")
SPEC = os.path.join(VERIF, "spec")
HARNESS = os.path.join(VERIF, "harness")
TLA_CP = "/opt/veriftools/tla/tla2tools.jar:/opt/veriftools/tla/CommunityModules-deps.jar"
NCPU = os.cpu_count() or 4

GOENV = dict(os.environ, GOFLAGS="-mod=mod", GOPROXY="off", GOSUMDB="off", GOTOOLCHAIN="local",
             CGO_ENABLED=os.environ.get("CGO_ENABLED", "1"))


class Infra(Exception):
    """An infrastructure problem: exit 2, never a verdict."""


def log(*a):
    print(*a, file=sys.stderr, flush=True)


# ---------------------------------------------------------------------------------------------
# work directory, harness build

class Run:
    def __init__(self, prop, tier, seed):
        self.prop, self.tier, self.seed = prop, tier, seed
        self.t0 = time.time()
        self.work = os.path.join(VERIF, ".work", "%s-%d-%d" % (prop, os.getpid(), int(self.t0)))
        os.makedirs(self.work, exist_ok=True)
        self.vh = None
        self.fails = []          # (prop, pred, op, cls, line, case, shard-trace-path)
        self.model = {"states": 0, "transitions": 0, "runs": []}
        self.traces = 0          # histories / traces validated against the implementation
        self.events = 0
        self.samples = []
        self.notes = []
        self.extra = {}
        self.crashes = []

    def cleanup(self):
        shutil.rmtree(self.work, ignore_errors=True)

    def build_harness(self, race=False):
        """Builds the harness against /repo's current working tree with the verif tag."""
        out = os.path.join(self.work, "vh-race" if race else "vh")
        src = HARNESS
        if REPO != "/repo":
            # another checkout of gotree (VERIF_REPO): a private copy of the harness sources whose go.mod points to it
            src = os.path.join(self.work, "harness-src")
            if not os.path.isdir(src):
                shutil.copytree(HARNESS, src, ignore=shutil.ignore_patterns("vh", "vh-race", "go.sum"))
                gm = os.path.join(src, "go.mod")
                with open(gm) as f:
                    t = f.read()
                with open(gm, "w") as f:
                    f.write(t.replace("=> /repo", "=> " + REPO))
        shutil.copy(os.path.join(REPO, "go.sum"), os.path.join(src, "go.sum"))
        cmd = ["go", "build", "-tags", "verif"] + (["-race"] if race else []) + ["-o", out, "."]
        p = subprocess.run(cmd, cwd=src, env=GOENV, capture_output=True, text=True)
        if p.returncode != 0:
            raise Infra("harness build failed (does /repo still compile?):\n" + p.stdout + p.stderr)
        if race:
            self.vh_race = out
        else:
            self.vh = out
        return out

    def build_gotree(self, race=False):
        out = os.path.join(self.work, "gotree-race" if race else "gotree")
        cmd = ["go", "build", "-tags", "verif"] + (["-race"] if race else []) + ["-o", out, "."]
        p = subprocess.run(cmd, cwd=REPO, env=GOENV, capture_output=True, text=True)
        if p.returncode != 0:
            raise Infra("gotree build failed:\n" + p.stdout + p.stderr)
        return out


# ---------------------------------------------------------------------------------------------
# TLC

def tlc_cmd(spec, cfg, metadir, workers=1, heap="2g", extra=(), gcthreads=2):
    return ["java", "-Xss512m", "-Xmx" + heap, "-XX:+UseParallelGC", "-XX:ParallelGCThreads=%d" % gcthreads,
            "-cp", TLA_CP, "tlc2.TLC", "-workers", str(workers), "-metadir", metadir, "-nowarning",
            "-config", cfg, *extra, spec]


STATS_RE = re.compile(r"(\d+) states generated, (\d+) distinct states found, (\d+) states left on queue")


def link_specs(d):
    for f in glob.glob(os.path.join(SPEC, "*.tla")):
        dst = os.path.join(d, os.path.basename(f))
        if not os.path.exists(dst):
            os.symlink(f, dst)


def run_tlc(d, spec, cfg_text, workers=1, heap="2g", timeout=1800, extra=(), outname="tlc.out"):
    """Runs TLC in directory d (specs are linked there). Returns (returncode, output)."""
    os.makedirs(d, exist_ok=True)
    link_specs(d)
    cfg = os.path.join(d, spec.replace(".tla", "") + ".cfg")
    with open(cfg, "w") as f:
        f.write(cfg_text)
    md = os.path.join(d, "md")
    cmd = tlc_cmd(spec, cfg, md, workers=workers, heap=heap, extra=extra, gcthreads=max(2, min(workers, 8)))
    try:
        p = subprocess.run(cmd, cwd=d, capture_output=True, text=True, timeout=timeout)
    except subprocess.TimeoutExpired:
        raise Infra("TLC timeout after %ds in %s (%s)" % (timeout, d, spec))
    out = p.stdout + p.stderr
    with open(os.path.join(d, outname), "w") as f:
        f.write(out)
    shutil.rmtree(md, ignore_errors=True)
    shutil.rmtree(os.path.join(d, "states"), ignore_errors=True)
    return p.returncode, out


def tlc_stats(out):
    m = None
    for m in STATS_RE.finditer(out):
        pass
    if not m:
        return 0, 0
    return int(m.group(2)), int(m.group(1))   # distinct states, generated (= transitions explored)


def run_model(run, name, spec, cfg_text, workers=None, heap="6g", timeout=3000, extra=(), expect_ok=True):
    """Exhaustive / simulated TLC run of an operational model. Design-level check of the properties
    on the model + source of cases for replay. A counterexample here is NOT a verdict about the code."""
    d = os.path.join(run.work, "model-" + name)
    t0 = time.time()
    rc, out = run_tlc(d, spec, cfg_text, workers=workers or min(NCPU, 8), heap=heap, timeout=timeout, extra=extra)
    states, trans = tlc_stats(out)
    ok = "Model checking completed. No error has been found." in out or "Finished in" in out and rc == 0
    rec = {"model": name, "spec": spec, "states": states, "transitions": trans, "rc": rc, "wall_s": round(time.time() - t0, 1)}
    run.model["runs"].append(rec)
    run.model["states"] += states
    run.model["transitions"] += trans
    if expect_ok and rc != 0:
        tail = "\n".join([l[:400] for l in out.splitlines() if not l.startswith('"CASE|')][-60:])
        raise Infra("model run %s (%s) did not complete cleanly (rc=%d): a counterexample on the MODEL is not a verdict "
                    "about the code; the model or its bound must be corrected.\n%s" % (name, spec, rc, tail))
    return out


def printed(out, tag):
    """Lines printed by PrintT("TAG|...") in a TLC run."""
    res = []
    for ln in out.splitlines():
        ln = ln.strip()
        if ln.startswith('"' + tag + '|') and ln.endswith('"'):
            res.append(ln[1:-1].split("|")[1:])
    return res


def printed_json(out, tag):
    res = []
    pre = '"' + tag + '|'
    for ln in out.splitlines():
        ln = ln.strip()
        if ln.startswith(pre) and ln.endswith('"'):
            body = ln[len(pre):-1]
            body = body.replace('\\"', '"').replace("\\\\", "\\")
            res.append(body)
    return res


# ---------------------------------------------------------------------------------------------
# drivers (real code) and trace validation

def run_driver(run, args, out_trace, race=False, timeout=900, env=None, allow_fail=False):
    exe = run.vh_race if race else run.vh
    try:
        p = subprocess.run([exe] + args, capture_output=True, text=True, timeout=timeout, env=env)
    except subprocess.TimeoutExpired:
        raise Infra("driver timeout: %s" % " ".join(args))
    summ = {}
    for ln in p.stdout.splitlines():
        if ln.startswith("SUMMARY "):
            summ = json.loads(ln[8:])
    if p.returncode != 0 and not allow_fail:
        raise Infra("driver failed rc=%d: %s\n%s" % (p.returncode, " ".join(args), (p.stderr or "")[-3000:]))
    summ["_rc"] = p.returncode
    summ["_stderr"] = p.stderr[-20000:] if p.stderr else ""
    return summ


def parallel(jobs, nproc=None):
    """jobs: list of zero-arg callables. Runs them on a thread pool (each spawns a process)."""
    res = [None] * len(jobs)
    with cf.ThreadPoolExecutor(max_workers=nproc or NCPU) as ex:
        futs = {ex.submit(j): i for i, j in enumerate(jobs)}
        for f in cf.as_completed(futs):
            res[futs[f]] = f.result()
    return res


def validate_trace(run, trace_path, spec, cfg_text, timeout=1800, heap="3g", extra=()):
    """TLC steps through one recorded trace file with a trace specification. Returns dict."""
    d = os.path.dirname(trace_path)
    base = os.path.basename(trace_path)
    if base != "trace.ndjson":
        # one trace per directory, under the fixed name the trace specs read
        d2 = os.path.join(d, base + ".d")
        os.makedirs(d2, exist_ok=True)
        os.replace(trace_path, os.path.join(d2, "trace.ndjson"))
        d = d2
        trace_path = os.path.join(d2, "trace.ndjson")
    with open(trace_path) as f:
        nlines = sum(1 for _ in f)
    if nlines == 0:
        return {"path": trace_path, "lines": 0, "accepted": True, "fails": [], "out": ""}
    rc, out = run_tlc(d, spec, cfg_text, workers=1, heap=heap, timeout=timeout, extra=extra)
    acc = False
    for ln in out.splitlines():
        if ln.startswith('<<"ACCEPTED"'):
            nums = re.findall(r"\d+", ln)
            acc = len(nums) >= 2 and nums[0] == nums[1] == str(nlines)
    fails = printed(out, "FAIL")
    notes = printed(out, "NOTE")
    if not acc or rc != 0:
        tail = "\n".join([l for l in out.splitlines() if not l.startswith('"FAIL')][-40:])
        raise Infra("trace %s not accepted by %s (rc=%d, %d lines): the trace spec could not step through the "
                    "recording — harness/spec mismatch, not a verdict.\n%s" % (trace_path, spec, rc, nlines, tail))
    return {"path": trace_path, "lines": nlines, "accepted": acc, "fails": fails, "notes": notes, "out": out}


# ---------------------------------------------------------------------------------------------
# known findings, verdict, evidence

def load_known():
    p = os.path.join(VERIF, "known_findings.json")
    if not os.path.exists(p):
        return []
    with open(p) as f:
        return json.load(f).get("findings", [])


def match_known(known, prop, pred, op, cls):
    for k in known:
        if k["property"] != prop:
            continue
        s = k["signature"]
        if s.get("pred", pred) == pred and s.get("op", op) == op and s.get("cls", cls) == cls:
            return k
    return None


def extract_history(trace_path, line):
    """The history (from its reset line) up to and including the given 1-based line."""
    with open(trace_path) as f:
        lines = f.readlines()
    i = line - 1
    if '"ev":"case"' in lines[i][:600]:
        return [lines[i]]     # calculation cases are self-contained
    start = i
    while start > 0 and '"ev":"reset"' not in lines[start][:40]:
        start -= 1
    return lines[start:i + 1]


def model_case(run, label):
    """The TLC-emitted case behind a case label <prop>-case-<k>, if any."""
    m = re.match(r"^(C\d+)-([a-z]*case2?)-(\d+)$", label or "")
    if not m:
        return None
    p = os.path.join(run.work, "%ss-%s.ndjson" % (m.group(2), m.group(1)))
    try:
        with open(p) as f:
            for i, ln in enumerate(f):
                if i == int(m.group(3)):
                    c = json.loads(ln)
                    c["k"] = i
                    return c
    except Exception:
        return None
    return None


def finish(run, level_note_extra=None, rule=None, exhaustive=False, assumptions=None):
    """Classifies the failed predicates, prints KNOWN-FINDING / VIOLATION lines, writes evidence, exits."""
    known = load_known()
    unknown, hits = [], {}
    growth = {}
    for f in run.fails:
        prop, pred, op, cls = f[0], f[1], f[2], f[3]
        if prop == "GROWTH":
            # behaviour the specification describes beyond the listed properties: a note, never a verdict on a listed property
            growth.setdefault((pred, op), [0, f[5] if len(f) > 5 else ""])[0] += 1
            continue
        if prop != run.prop:
            continue
        k = match_known(known, prop, pred, op, cls)
        if k:
            hits.setdefault(k["id"], [k, 0])
            hits[k["id"]][1] += 1
        else:
            unknown.append(f)
    for (pred, op), (n, case) in sorted(growth.items()):
        print("GROWTH-NOTE: beyond the listed properties: %s on %s differs from the specification %d times (first case %s)" % (pred, op, n, case))
    run.extra["growth_notes"] = {"%s/%s" % k: v[0] for k, v in growth.items()}
    # conformance notes of the trace specs (the recorded result is not one the operational model allows, no property predicate
    # failed): printed, recorded, never a verdict
    drift = {}
    first_case = {}
    for n in run.notes:
        if n and str(n[0]).startswith("DRIFT") and len(n) > 1:
            drift[(n[0], n[1])] = drift.get((n[0], n[1]), 0) + 1
            if len(n) > 4:
                first_case.setdefault((n[0], n[1]), n[4])
    for (kind, op), cnt in sorted(drift.items()):
        print("DRIFT-NOTE: %s on %s: code and operational model disagree %d times (no listed property violated by it)%s" % (
            kind, op, cnt, "; first case %s" % first_case[(kind, op)] if (kind, op) in first_case else ""))
    if drift:
        run.extra["drift_by_operation"] = {"%s/%s" % k: v for k, v in drift.items()}
    for kid, (k, n) in sorted(hits.items()):
        print("KNOWN-FINDING: property=%s %s [%s; hit %d times]" % (run.prop, k["what"], kid, n))
    rc = 0
    replay = None
    if unknown:
        rc = 1
        os.makedirs(os.path.join(VERIF, "replays"), exist_ok=True)
        seen = set()
        for f in unknown:
            sig = "%s-%s-%s-%s" % (f[0], f[1], f[2], f[3])
            if sig in seen:
                continue
            seen.add(sig)
            path = os.path.join(VERIF, "replays", re.sub(r"[^A-Za-z0-9_.-]", "_", sig) + ".ndjson")
            if getattr(run, "replay_of", None):
                # re-running a recorded case: keep the recording, point at it
                print("VIOLATION property=%s replay=%s" % (run.prop, run.replay_of))
                print("  failed predicate %s on %s (%s), case %s (reproduced on the current /repo)" % (f[1], f[2], f[3], f[5] if len(f) > 5 else ""))
                continue
            try:
                if len(f) > 6 and f[6] and os.path.exists(f[6]):
                    hist = extract_history(f[6], int(f[4]))
                    hdr = {"ev": "replay-header", "property": run.prop, "predicate": f[1], "op": f[2],
                           "cls": f[3], "case": f[5], "seed": run.seed, "tier": run.tier}
                    mc = model_case(run, f[5])
                    if mc is not None:
                        hdr["model_case"] = mc
                    with open(path, "w") as o:
                        o.write(json.dumps(hdr) + "\n")
                        o.writelines(hist)
                else:
                    with open(path, "w") as o:
                        o.write(json.dumps({"ev": "replay-header", "property": run.prop, "predicate": f[1], "op": f[2],
                                            "cls": f[3], "case": f[5] if len(f) > 5 else "", "seed": run.seed,
                                            "tier": run.tier, "detail": f[7] if len(f) > 7 else ""}) + "\n")
            except Exception as e:  # noqa
                log("could not write replay:", e)
            print("VIOLATION property=%s replay=%s" % (run.prop, path))
            print("  failed predicate %s on %s (%s), case %s, trace line %s" % (f[1], f[2], f[3], f[5] if len(f) > 5 else "", f[4] if len(f) > 4 else ""))
            if replay is None:
                replay = path
    cov = {
        "states": max(1, run.model["states"]),
        "transitions": max(1, run.model["transitions"]),
        "traces_validated_against_impl": run.traces,
        "samples": run.samples[:6] if run.samples else [{"note": "no sample recorded"}],
        "events_validated": run.events,
        "model_runs": run.model["runs"],
        "failed_predicates_unknown": len(unknown),
        "known_findings_hit": {kid: n for kid, (k, n) in hits.items()},
        "exhaustive": bool(exhaustive),
        "rule": rule or "",
    }
    cov.update(run.extra)
    ev = {
        "property_id": run.prop, "tier": run.tier, "seed": run.seed, "level": "model_checking",
        "coverage": cov,
        "assumptions": assumptions or [],
        "wall_s": round(time.time() - run.t0, 1),
        "violations": len({(f[1], f[2], f[3]) for f in unknown}),
    }
    # a run against another checkout (VERIF_REPO) is an experiment: its evidence does not replace the one of /repo
    evdir = os.path.join(VERIF, "evidence") if REPO == "/repo" else os.path.join(VERIF, ".work", "evidence-other-repo")
    if getattr(run, "replay_of", None):
        evdir = os.path.join(VERIF, ".work", "evidence-replays")     # a replay covers one case: not the check's evidence
    os.makedirs(evdir, exist_ok=True)
    with open(os.path.join(evdir, run.prop + ".json"), "w") as f:
        json.dump(ev, f, indent=1, default=str)
    log("%s %s: %d model states, %d traces / %d events validated, %d unknown failures, %d known hits, %.0fs" % (
        run.prop, run.tier, run.model["states"], run.traces, run.events, len(unknown), len(hits), time.time() - run.t0))
    if rc == 0:
        print("OK property=%s tier=%s seed=%d" % (run.prop, run.tier, run.seed))
    return rc


def sample_events(trace_path, n=2, maxlen=1500):
    out = []
    try:
        with open(trace_path) as f:
            for i, ln in enumerate(f):
                if i >= 40:
                    break
                if '"ev":"op"' in ln[:300] or '"ev":"case"' in ln[:300]:
                    s = ln.strip()
                    out.append(json.loads(s) if len(s) <= maxlen else {"truncated_event": s[:maxlen]})
                    if len(out) >= n:
                        break
    except Exception:
        pass
    return out
