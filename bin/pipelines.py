"""Per-property pipelines. Each returns the exit code of the check."""
import json
import math
import os
import shutil

import vk

PIPELINES = {}


def pipeline(*ids):
    def deco(f):
        for i in ids:
            PIPELINES[i] = (lambda run, replay=None, _f=f, _i=i: _f(run, replay))
        return f
    return deco


TRACE_CFG = """SPECIFICATION Spec
CONSTANT PROPS = {%s}
CONSTANT CONFORM = %s
POSTCONDITION Accepted
CHECK_DEADLOCK FALSE
"""


def collect(run, results):
    for r in results:
        run.events += r["lines"]
        for f in r["fails"]:
            run.fails.append(list(f) + [r["path"]])
        for n in r.get("notes", []):
            run.notes.append(n)


# ------------------------------------------------------------------------------------------------
# Edit family: C03, C05, C06, C07, C15, C17 (+ the index part of C04)

EDIT_BOUNDS = {
    # prop: (quick histories, thorough histories, steps, maxtips quick, maxtips thorough)
    "C03": (480, 8000, 8, 11, 16),
    "C05": (640, 12000, 6, 11, 18),
    "C06": (640, 12000, 5, 12, 18),
    "C07": (640, 12000, 5, 12, 18),
    "C15": (480, 8000, 7, 10, 14),
    "C17": (480, 8000, 6, 10, 14),
    "C04": (320, 8000, 7, 11, 16),
}


def edit_random(run, prop, nhist, steps, maxtips, tag="rnd"):
    """Direction B: seeded random histories on the real code, validated by TraceEdit."""
    shards = min(vk.NCPU, max(1, nhist // 20))
    per = math.ceil(nhist / shards)
    cfg = TRACE_CFG % ('"%s"' % prop, "TRUE")

    def job(i):
        def f():
            path = os.path.join(run.work, "%s-%s-%d.ndjson" % (tag, prop, i))
            s = vk.run_driver(run, ["edit", "--prop", prop, "--seed", str(run.seed), "--from", str(i * per),
                                    "--to", str(min(nhist, (i + 1) * per)), "--steps", str(steps),
                                    "--maxtips", str(maxtips), "--out", path], path)
            r = vk.validate_trace(run, path, "TraceEdit.tla", cfg)
            r["summary"] = s
            return r
        return f
    res = vk.parallel([job(i) for i in range(shards)])
    collect(run, res)
    ops = {}
    for r in res:
        run.traces += r["summary"].get("histories", 0)
        for k, v in r["summary"].get("ops", {}).items():
            ops[k] = ops.get(k, 0) + v
    run.extra.setdefault("ops_executed_on_real_code", {})
    for k, v in ops.items():
        run.extra["ops_executed_on_real_code"][k] = run.extra["ops_executed_on_real_code"].get(k, 0) + v
    if res:
        run.samples += vk.sample_events(res[0]["path"], 2)
    return res


@pipeline("C03", "C05", "C06", "C07", "C15", "C17")
def edit_family(run, replay):
    prop = run.prop
    run.build_harness()
    q, t, steps, mq, mt = EDIT_BOUNDS[prop]
    nhist, maxtips = (q, mq) if run.tier == "quick" else (t, mt)
    if replay:
        return edit_replay(run, replay)
    import models
    models.edit_model(run, prop)
    if prop == "C17":
        models.nni_model(run)
    if prop == "C15":
        models.two_trees_model(run)
    edit_random(run, prop, nhist, steps, maxtips)
    if prop in CLI_CASES:
        cli_stage(run, prop, "TraceEdit.tla", TRACE_CFG % ('"%s"' % prop, "TRUE"))
    if prop in STATS_CASES:
        stats_stage(run, prop)
    return vk.finish(run,
                     rule="model: every transition of the bounded TreeOps model; real code: every TLC-emitted case replayed plus "
                          "seeded random histories of public editing calls on random multifurcating trees; each recorded call is one "
                          "TLC step judged by the property predicates of EditProps.tla",
                     assumptions=["gotree getters (Root, Neigh, Edges, Left, Right, Name, Comments, Length, Support, PValue) are trusted",
                                  "lengths/supports are dyadic so that float arithmetic is exact and equals the model's integer arithmetic",
                                  "TLC, CommunityModules, the Go projection and the reference Newick reader are trusted"])


STATS_CASES = {"C03": (160, 3000), "C04": (160, 3000)}


def stats_stage(run, prop):
    """`gotree stats`, `stats edges|splits|nodes|tips` on files of random trees; the printed tables judged by StatsProps.tla."""
    gotree = run.build_gotree()
    q, t = STATS_CASES[prop]
    n = q if run.tier == "quick" else t
    res = sharded(run, "statscli", prop, n, "TraceCalc.tla", CALC_CFG % ('"%s"' % prop),
                  extra_args=["--prop", prop, "--gotree", gotree, "--maxtips", "10" if run.tier == "quick" else "14"], tag="stats", timeout=3000)
    run.extra["stats_commands_run"] = sum(r["summary"].get("commands_run", 0) for r in res)
    return res


def is_stats_case(hdr):
    parts = hdr.get("case", "").split("-")
    return len(parts) == 3 and parts[2][:1] == "t" and parts[2][1:].isdigit() and "model_case" not in hdr


def stats_replay(run, hdr):
    parts = hdr.get("case", "").split("-")
    seed, k = int(parts[1][1:]), int(parts[2][1:])
    gotree = run.build_gotree()
    p = os.path.join(run.work, "replay.ndjson")
    vk.run_driver(run, ["statscli", "--prop", run.prop, "--gotree", gotree, "--seed", str(seed), "--from", str(k), "--to", str(k + 1),
                        "--maxtips", "10" if hdr.get("tier", "quick") == "quick" else "14", "--out", p], p)
    r = vk.validate_trace(run, p, "TraceCalc.tla", CALC_CFG % ('"%s"' % run.prop))
    collect(run, [r])
    run.traces = 1
    return vk.finish(run, rule="replay of one recorded `gotree stats` case on the current /repo")


def cli_replay(run, hdr, spec, cfg):
    parts = hdr.get("case", "").split("-")
    seed, k = int(parts[1][1:]), int(parts[2][1:])
    gotree = run.build_gotree()
    p = os.path.join(run.work, "replay.ndjson")
    vk.run_driver(run, ["cli", "--prop", run.prop, "--gotree", gotree, "--seed", str(seed), "--from", str(k), "--to", str(k + 1),
                        "--maxtips", "10", "--out", p], p)
    r = vk.validate_trace(run, p, spec, cfg)
    collect(run, [r])
    run.traces = 1
    return vk.finish(run, rule="replay of one recorded command-line case on the current /repo")


def is_cli_case(hdr):
    parts = hdr.get("case", "").split("-")
    return len(parts) == 3 and parts[2][:1] == "c" and parts[2][1:].isdigit() and "model_case" not in hdr


def edit_replay(run, path):
    """Re-runs the recorded history (same seed, same history index) on the current /repo and validates it."""
    with open(path) as f:
        hdr = json.loads(f.readline())
    run.replay_of = path
    if is_cli_case(hdr):
        return cli_replay(run, hdr, "TraceEdit.tla", TRACE_CFG % ('"%s"' % run.prop, "TRUE"))
    case = hdr.get("case", "")
    if "model_case" in hdr:
        cp = os.path.join(run.work, "cases-replay.ndjson")
        with open(cp, "w") as f:
            f.write(json.dumps(hdr["model_case"]) + "\n")
        p = os.path.join(run.work, "replay.ndjson")
        vk.run_driver(run, ["replay-edit", "--prop", run.prop, "--cases", cp, "--out", p], p)
        r = vk.validate_trace(run, p, "TraceEdit.tla", TRACE_CFG % ('"%s"' % run.prop, "TRUE"))
        collect(run, [r])
        run.traces = 1
        run.samples += vk.sample_events(r["path"], 2)
        return vk.finish(run, rule="replay of one TLC-emitted model case on the current /repo")
    # case label: <prop>-s<seed>-h<k>
    try:
        parts = case.split("-")
        seed = int(parts[1][1:])
        k = int(parts[2][1:])
    except Exception:
        raise vk.Infra("cannot parse case label %r of replay file" % case)
    run.seed = seed
    q, t, steps, mq, mt = EDIT_BOUNDS[run.prop]
    maxtips = mq if hdr.get("tier", "quick") == "quick" else mt
    p = os.path.join(run.work, "replay.ndjson")
    vk.run_driver(run, ["edit", "--prop", run.prop, "--seed", str(seed), "--from", str(k), "--to", str(k + 1),
                        "--steps", str(steps), "--maxtips", str(maxtips), "--out", p], p)
    r = vk.validate_trace(run, p, "TraceEdit.tla", TRACE_CFG % ('"%s"' % run.prop, "TRUE"))
    collect(run, [r])
    run.traces = 1
    run.samples += vk.sample_events(r["path"], 2)
    return vk.finish(run, rule="replay of one recorded history")


# ------------------------------------------------------------------------------------------------
# Computing entry points: C08, C09, C10, C12, C14 (+ hash / index part of C04, generators C16)

CALC_CFG = """SPECIFICATION Spec
CONSTANT PROPS = {%s}
POSTCONDITION Accepted
CHECK_DEADLOCK FALSE
"""

CALC_BOUNDS = {
    # prop: (quick cases, thorough cases, maxtips quick, maxtips thorough)
    "C08": (1600, 40000, 10, 16),
    "C09": (1600, 40000, 9, 14),
    "C10": (1200, 30000, 9, 14),
    "C12": (1200, 30000, 9, 13),
    "C14": (1600, 40000, 10, 16),
    "C04": (800, 20000, 10, 16),
    "C16": (600, 12000, 10, 16),
}


def calc_random(run, prop, ncases, maxtips, tag="calc"):
    """Direction B: seeded random cases on the real code, each recorded call validated by TraceCalc."""
    shards = min(vk.NCPU, max(1, ncases // 25))
    per = math.ceil(ncases / shards)
    cfg = CALC_CFG % ('"%s"' % prop)

    def job(i):
        def f():
            path = os.path.join(run.work, "%s-%s-%d.ndjson" % (tag, prop, i))
            s = vk.run_driver(run, ["calc", "--prop", prop, "--seed", str(run.seed), "--from", str(i * per),
                                    "--to", str(min(ncases, (i + 1) * per)), "--maxtips", str(maxtips), "--out", path], path)
            r = vk.validate_trace(run, path, "TraceCalc.tla", cfg)
            r["summary"] = s
            return r
        return f
    res = vk.parallel([job(i) for i in range(shards)])
    collect(run, res)
    kinds = run.extra.setdefault("calls_executed_on_real_code", {})
    for r in res:
        run.traces += r["summary"].get("events", 0)
        for k, v in r["summary"].get("kinds", {}).items():
            kinds[k] = kinds.get(k, 0) + v
    if res:
        run.samples += vk.sample_events(res[0]["path"], 2)
    return res


CALC_RULE = ("model: bounded enumeration by TLC (CalcModel) of small input trees x arguments, with the design-level "
             "theorems checked on every state and every case replayed on the real code; real code: seeded random "
             "cases (related tree pairs / collections under several presentations); every recorded call is one TLC "
             "step that recomputes the result from the definitions (CalcProps) on the projected input trees")
CALC_ASSUME = ["gotree getters (Root, Neigh, Edges, Left, Right, Name, Length, Support) are trusted",
               "input lengths are multiples of 2^-4 and supports multiples of 2^-6 so that sums are exact; quotients are compared "
               "with the exact rational within 10^-4",
               "TLC, CommunityModules and the Go projection are trusted"]


@pipeline("C08", "C09", "C10", "C14")
def calc_family(run, replay):
    prop = run.prop
    run.build_harness()
    q, t, mq, mt = CALC_BOUNDS[prop]
    n, maxtips = (q, mq) if run.tier == "quick" else (t, mt)
    if replay:
        return calc_replay(run, replay)
    import models
    models.calc_model(run, prop)
    calc_random(run, prop, n, maxtips)
    cli_stage(run, prop, "TraceCalc.tla", CALC_CFG % ('"%s"' % prop))
    return vk.finish(run, rule=CALC_RULE + "; the same calls through the commands (compare trees, compute consensus, compute support "
                     "classical/booster, matrix, brlen cut) on files, outputs parsed back and judged by the same predicates",
                     assumptions=CALC_ASSUME)


def calc_replay(run, path, spec="TraceCalc.tla"):
    """Re-runs one recorded case (same seed, same case index, or the TLC-emitted model case) on the current /repo."""
    with open(path) as f:
        hdr = json.loads(f.readline())
    run.replay_of = path
    if is_cli_case(hdr):
        return cli_replay(run, hdr, spec, CALC_CFG % ('"%s"' % run.prop))
    case = hdr.get("case", "")
    p = os.path.join(run.work, "replay.ndjson")
    if "model_case" in hdr:
        cp = os.path.join(run.work, "cases-replay.ndjson")
        with open(cp, "w") as f:
            f.write(json.dumps(hdr["model_case"]) + "\n")
        vk.run_driver(run, ["replay-calc", "--prop", run.prop, "--cases", cp, "--out", p], p)
    else:
        try:
            parts = case.split("-")
            seed = int(parts[1][1:])
            k = int(parts[2][1:])
        except Exception:
            raise vk.Infra("cannot parse case label %r of replay file" % case)
        run.seed = seed
        q, t, mq, mt = CALC_BOUNDS[run.prop]
        maxtips = mq if hdr.get("tier", "quick") == "quick" else mt
        vk.run_driver(run, ["calc", "--prop", run.prop, "--seed", str(seed), "--from", str(k), "--to", str(k + 1),
                            "--maxtips", str(maxtips), "--out", p], p)
    r = vk.validate_trace(run, p, spec, CALC_CFG % ('"%s"' % run.prop))
    collect(run, [r])
    run.traces = 1
    run.samples += vk.sample_events(r["path"], 2)
    return vk.finish(run, rule="replay of one recorded case on the current /repo")


@pipeline("C12")
def pars_family(run, replay):
    run.build_harness()
    q, t, mq, mt = CALC_BOUNDS["C12"]
    n, maxtips = (q, mq) if run.tier == "quick" else (t, mt)
    if replay:
        return calc_replay(run, replay)
    import models
    models.pars_model(run)
    calc_random(run, "C12", n, maxtips)
    cli_stage(run, "C12", "TraceCalc.tla", CALC_CFG % '"C12"')
    return vk.finish(run,
                     rule="model: every tree of the bound x every tip assignment (state sets when ambiguous) through the transcribed "
                          "passes of ParsModel.tla, design theorems as invariants, every initial state replayed on acr.ParsimonyAcr (three "
                          "algorithms) and asr.ParsimonyAsr; real code: seeded random multifurcating trees, 2-4 states, alignments of 1-4 "
                          "sites with and without IUPAC codes; each recorded reconstruction is one TLC step judged against the Sankoff "
                          "minimum and the MPR sets (ParsProps)",
                     assumptions=["gotree getters and node comments (where the reconstruction is written) are trusted",
                                  "the harness' IUPAC table is an input convention", "TLC, CommunityModules, goalign's alignment container"])


@pipeline("C04")
def index_family(run, replay):
    run.build_harness()
    if replay:
        with open(replay) as f:
            hdr = json.loads(f.readline())
        if "-h" in hdr.get("case", "") and "model_case" not in hdr:
            return edit_replay(run, replay)
        return calc_replay(run, replay)
    import models
    models.index_model(run)
    q, t, mq, mt = CALC_BOUNDS["C04"]
    n, maxtips = (q, mq) if run.tier == "quick" else (t, mt)
    calc_random(run, "C04", n, maxtips)
    q, t, steps, mq, mt = EDIT_BOUNDS["C04"]
    nhist, maxtips = (q, mq) if run.tier == "quick" else (t, mt)
    edit_random(run, "C04", nhist, steps, maxtips)
    stats_stage(run, "C04")
    return vk.finish(run,
                     rule="model: the bucket structure of hashmap.HashMap/EdgeIndex (EdgeIndex.tla) for every initial capacity and load "
                          "factor of the bound and every operation sequence, refinement invariant ActsLikeMap; every transition replayed on "
                          "the real index with real branches (two presentations per split); real code: random edit histories with the "
                          "recorded bitset/counts/depth/hash of every branch judged after every (re)indexing, all branch pairs of trees on "
                          "the same taxa under other rootings/orders (SameBipartition, HashEquals, hash codes), long random index sequences "
                          "through resizes, all 24 presentations of quartets",
                     assumptions=["gotree getters incl. Bitset/NumTipsLeft/NumTipsRight/TopoDepth/HashCode are read as data",
                                  "capacity 0 and load factor <= 0 are outside the constructor's domain",
                                  "the stored key of an index entry is read by reflection (the field is unexported)"])


# ------------------------------------------------------------------------------------------------
# C20: random selections

SAMPLING_CFG = """SPECIFICATION Spec
CONSTANTS
  Algo = "%s"
  N = %d
  K = %d
INVARIANTS Uniform EveryElementSelectable
CHECK_DEADLOCK FALSE
"""

SAMPLING_BOUNDS = {
    "quick": [("reservoir", 6, 1), ("reservoir", 6, 2), ("reservoir", 6, 3), ("reservoir", 3, 5), ("replace", 4, 2), ("replace", 3, 3),
              ("perm", 5, 0), ("rotate", 5, 0), ("utree", 6, 0), ("rtree", 5, 0)],
    "thorough": [("reservoir", 8, 1), ("reservoir", 8, 2), ("reservoir", 8, 3), ("reservoir", 8, 4), ("reservoir", 4, 6),
                 ("replace", 5, 2), ("replace", 4, 3), ("replace", 3, 4), ("perm", 7, 0), ("rotate", 6, 0), ("utree", 7, 0), ("rtree", 6, 0)],
}

CONFORMANCE_PREDS = {"DrawCountAsModelled", "DrawRangesAsModelled", "OutcomeIsTheMachineOutcome", "ShuffleAppliesThePermutation"}


def log_binom_pmf(n, k, p):
    return (math.lgamma(n + 1) - math.lgamma(k + 1) - math.lgamma(n - k + 1) + k * math.log(p) + (n - k) * math.log1p(-p))


def binom_two_sided(n, k, p):
    """Exact two-sided tail: total probability of outcomes no more likely than k."""
    lk = log_binom_pmf(n, k, p)
    mean = n * p
    sd = math.sqrt(n * p * (1 - p))
    lo, hi = max(0, int(mean - 60 * sd) - 2), min(n, int(mean + 60 * sd) + 2)
    if lo <= k <= hi:
        tot = 0.0
        for j in range(lo, hi + 1):
            lj = log_binom_pmf(n, j, p)
            if lj <= lk + 1e-12:
                tot += math.exp(lj)
        return min(1.0, tot)
    return 0.0


def sampling_fallback(run, whats):
    """The recorded draws do not follow the modelled machine: the code may still be a different, correct algorithm.
    Decide by outcome frequencies over many seeds, exact binomial tails, total false-alarm budget 1e-9."""
    runs = 20000 if run.tier == "quick" else 100000
    s = vk.run_driver(run, ["sample-stats", "--seed", str(run.seed), "--runs", str(runs)], None, timeout=3000)
    cells = [c for c in s.get("cells", []) if c["what"] in whats]
    ntests = sum(c["classes"] for c in cells) or 1
    alpha = 1e-9 / ntests
    bad = []
    rep = []
    for c in cells:
        p = 1.0 / c["classes"]
        counts = c["counts"]
        worst = 1.0
        if len(counts) > c["classes"] or any(k.startswith("error:") for k in counts):
            bad.append((c["cell"], "outcomes outside the %d expected classes: %s" % (c["classes"], sorted(counts)[:5])))
            continue
        vals = list(counts.values()) + [0] * (c["classes"] - len(counts))
        for v in vals:
            worst = min(worst, binom_two_sided(c["runs"], v, p))
        rep.append({"cell": c["cell"], "runs": c["runs"], "classes": c["classes"], "observed_classes": len(counts),
                    "min": min(vals), "max": max(vals), "smallest_tail": worst})
        if worst < alpha:
            bad.append((c["cell"], "outcome frequencies %s over %d runs are not uniform over %d classes (tail %.3g < %.3g)"
                        % (sorted(vals), c["runs"], c["classes"], worst, alpha)))
    run.extra["statistical_fallback"] = {"cells": rep, "alpha_per_test": alpha, "rejected": [b[0] for b in bad]}
    return bad


@pipeline("C20")
def sampling_family(run, replay):
    run.build_harness()
    cfg = CALC_CFG % '"C20"'
    if replay:
        with open(replay) as f:
            hdr = json.loads(f.readline())
        run.replay_of = replay
        parts = hdr.get("case", "").split("-")
        try:
            seed, k = int(parts[1][1:]), int(parts[2][1:])
        except Exception:
            raise vk.Infra("cannot parse case label of replay file")
        run.seed = seed
        p = os.path.join(run.work, "replay.ndjson")
        vk.run_driver(run, ["sample", "--seed", str(seed), "--from", str(k), "--to", str(k + 1), "--out", p], p)
        r = vk.validate_trace(run, p, "TraceCalc.tla", cfg)
        collect(run, [r])
        run.traces = 1
        run.samples += vk.sample_events(r["path"], 1)
    else:
        for bi, (algo, n, k) in enumerate(SAMPLING_BOUNDS[run.tier]):
            vk.run_model(run, "Sampling-%s-%d-%d" % (algo, n, k), "Sampling.tla", SAMPLING_CFG % (algo, n, k), workers=2, heap="4g")
        run.extra["model_bounds"] = [dict(algo=a, n=n, k=k) for a, n, k in SAMPLING_BOUNDS[run.tier]]
        ncases = 1600 if run.tier == "quick" else 40000
        shards = vk.NCPU
        per = math.ceil(ncases / shards)

        def job(i):
            def f():
                path = os.path.join(run.work, "smp-%d.ndjson" % i)
                s = vk.run_driver(run, ["sample", "--seed", str(run.seed), "--from", str(i * per), "--to", str(min(ncases, (i + 1) * per)),
                                        "--out", path], path)
                r = vk.validate_trace(run, path, "TraceCalc.tla", cfg)
                r["summary"] = s
                return r
            return f
        res = vk.parallel([job(i) for i in range(shards)])
        collect(run, res)
        for r in res:
            run.traces += r["summary"].get("events", 0)
        run.samples += vk.sample_events(res[0]["path"], 2)
    # draw-conformance failures are not verdicts by themselves
    conf = [f for f in run.fails if f[1] in CONFORMANCE_PREDS]
    if conf:
        whats = set()
        for f in conf:
            try:
                with open(f[6]) as fh:
                    ev = json.loads(fh.readlines()[int(f[4]) - 1])
                whats.add(ev["args"].get("what", "ShuffleTips") if ev["kind"] == "Draws" else "ShuffleTips")
            except Exception:
                pass
        run.extra["draw_conformance_failures"] = len(conf)
        bad = sampling_fallback(run, whats)
        keep = [f for f in run.fails if f[1] not in CONFORMANCE_PREDS]
        if bad:
            first = conf[0]
            for cell, why in bad:
                keep.append(["C20", "UniformOutcomeFrequencies", cell, "stat", first[4], first[5], first[6], why])
                vk.log("statistical fallback:", cell, why)
        else:
            run.notes.append(["DRIFT", "the code's draws do not follow the modelled machine but outcome frequencies are uniform"])
            print("NOTE: draws do not follow the modelled machine (%d recorded runs); outcome frequencies are uniform: no violation" % len(conf))
        run.fails = keep
    return vk.finish(run,
                     rule="model: the selection machines of Sampling.tla lifted to distributions (state = outcome -> number of equiprobable "
                          "draw sequences), uniformity checked exactly by TLC at every size of the bound; real code: every recorded run "
                          "(gotree sample, sample --replace, prune --random, RotateNeighbors, ShuffleTips, RandomUniformBinaryTree over seeds "
                          "and sizes incl. k>=n) logs its draws through the verif hooks and TLC replays them through the same step function: "
                          "ranges and outcome must be the machine's; otherwise outcome frequencies over many seeds decide (exact binomial "
                          "tails, total false-alarm budget 1e-9)",
                     assumptions=["math/rand's Intn is uniform on its range; rand.Perm is the inside-out shuffle proved uniform by the 'perm' machine",
                                  "the verif hooks report the draws actually used (a removed hook makes the run non-conforming and the "
                                  "statistical fallback decides)"])


# ------------------------------------------------------------------------------------------------
# C16: generators

GEN_MODEL_CFG = """SPECIFICATION Spec
CONSTANTS
  Gen = "%s"
  Rooted = %s
  MaxTips = %d
  Emit = TRUE
INVARIANTS IsBinaryTree IsCaterpillar EmitCase
CHECK_DEADLOCK FALSE
"""


@pipeline("C16")
def generator_family(run, replay):
    run.build_harness()
    if replay:
        return calc_replay(run, replay)
    import models
    maxtips = 6 if run.tier == "quick" else 8
    outs = []
    for g in ("uniform", "yule", "caterpillar"):
        for r in ("TRUE", "FALSE"):
            outs.append(vk.run_model(run, "GenModel-%s-%s" % (g, r), "GenModel.tla", GEN_MODEL_CFG % (g, r, maxtips), workers=4, heap="4g"))
    # the uniform machine reaches every labelled topology (lifted model): the enumerator's target set
    for algo, n in (("utree", 6 if run.tier == "quick" else 7), ("rtree", 5 if run.tier == "quick" else 6)):
        vk.run_model(run, "Sampling-%s-%d" % (algo, n), "Sampling.tla", SAMPLING_CFG % (algo, n, 0), workers=2, heap="4g")
    cases_path, n = models.emit_cases(run, "C16", outs)
    # sizes the insertion model does not produce: below the minimum, balanced / star shapes, the enumerator
    extra = []
    for g in ("uniform", "yule", "caterpillar"):
        for r in (True, False):
            for k in (-1, 0, 1, 2, 16, 33):
                extra.append(dict(gen=g, n=k, rooted=r))
    for r in (True, False):
        for d in (-1, 0, 1, 2, 3, 4, 5):
            extra.append(dict(gen="balanced", n=d, rooted=r))
        # (2n-5)!! unrooted / (2n-3)!! rooted trees in one recorded event: 945 at most in the quick tier, 10395 in the thorough one
        top = (7 if run.tier == "quick" else 8) - (1 if r else 0)
        for k in range(0, top + 1):
            extra.append(dict(gen="topologies", n=k, rooted=r))
    for k in (-1, 0, 1, 2, 3, 4, 9, 40):
        extra.append(dict(gen="star", n=k, rooted=False))
    for g in ("starnames", "startree"):
        for k in (0, 2, 3, 5, 12, 33):
            extra.append(dict(gen=g, n=k, rooted=False))
    with open(cases_path, "a") as f:
        for e in extra:
            f.write(json.dumps(dict(fam="C16", pat=0, ref=dict(root=0, nodes=[]), trees=[], extra=e)) + "\n")
    run.extra["model_bounds"] = dict(maxtips=maxtips, generators=["uniform", "yule", "caterpillar"], fixed_extra_cases=len(extra))
    models.replay_cases(run, "C16", cases_path, n + len(extra), "replay-calc", "TraceCalc.tla", CALC_CFG % '"C16"', per_shard=8)
    q, t, mq, mt = CALC_BOUNDS["C16"]
    ncases, mtips = (q, mq) if run.tier == "quick" else (t, mt)
    calc_random(run, "C16", ncases, mtips)
    cli_stage(run, "C16", "TraceCalc.tla", CALC_CFG % '"C16"')
    return vk.finish(run,
                     rule="model: the insertion machines of GenModel.tla (every choice of insertion branch, invariants: binary tree on the tips "
                          "inserted so far, caterpillar shape) and the lifted uniform machine reaching every labelled topology; real code: "
                          "every (generator, size, rootedness) of the model plus sizes around and below the documented minimum, balanced/star "
                          "shapes and the enumerator, several seeds each, plus random sizes; each returned tree is projected as returned "
                          "(index fields included) and judged by TLC: well-formed, binary, requested tips and rootedness, lengths >= 0, shape, "
                          "indexes fresh, enumerations consistent; enumerator: count (2n-5)!! / (2n-3)!!, all binary, pairwise distinct",
                     assumptions=["two tips joined by one branch (unrooted generators with n = 2, balanced depth 1 unrooted) is outside the "
                                  "judged domain: only 'no crash' is claimed there", "gotree getters are trusted"])


# ------------------------------------------------------------------------------------------------
# C19: option defaults

FLAGS_MODEL_CFG = """SPECIFICATION Spec
CONSTANTS
  Opts = {%s}
  Cells = {%s}
  Vals = {%s}
INVARIANTS OmittedMeansDocumented NonInterference
CHECK_DEADLOCK FALSE
"""

FLAGS_TRACE_CFG = """SPECIFICATION Spec
POSTCONDITION Accepted
CHECK_DEADLOCK FALSE
"""


@pipeline("C19")
def flags_family(run, replay):
    run.build_harness()
    gotree = run.build_gotree()
    if run.tier == "quick":
        mcfg = FLAGS_MODEL_CFG % ("o1, o2, o3, o4", "c1, c2", "v1, v2")
    else:
        mcfg = FLAGS_MODEL_CFG % ("o1, o2, o3, o4, o5", "c1, c2, c3", "v1, v2, v3")
    vk.run_model(run, "Flags", "Flags.tla", mcfg, workers=8, heap="6g")
    shards = vk.NCPU

    def job(i):
        def f():
            d = os.path.join(run.work, "fl-%d" % i)
            os.makedirs(d, exist_ok=True)
            path = os.path.join(d, "fl.ndjson")
            s = vk.run_driver(run, ["flags", "--gotree", gotree, "--out", path, "--shard", str(i), "--nshards", str(shards)], path, timeout=1800)
            r = vk.validate_trace(run, path, "TraceFlags.tla", FLAGS_TRACE_CFG)
            r["summary"] = s
            return r
        return f
    res = vk.parallel([job(i) for i in range(shards)])
    collect(run, res)
    nrun = sum(r["summary"].get("options_run", 0) for r in res)
    run.traces = nrun
    run.extra["options_in_registry"] = res[0]["summary"].get("options", 0)
    run.extra["options_run_omitted_vs_documented_default"] = nrun
    run.extra["static_mismatches_registry"] = sum(r["summary"].get("static_mismatches", 0) for r in res)
    run.extra["compensated_static_mismatches"] = [n[1:3] for n in run.notes if n and n[0].startswith("DRIFT-COMPENSATED")]
    for r in res[:2]:
        run.samples += vk.sample_events(r["path"], 2)
    if replay:
        run.replay_of = replay
    return vk.finish(run,
                     rule="model: every registration table of the bound x every order of the registering initialisers (Flags.tla): omitting an "
                          "option means its documented default iff options sharing a cell agree, non-interference; real code: the registry of "
                          "the real CLI after package initialisation (every local and persistent option of every command) and, for every option, "
                          "the command run with the option omitted and with the option given as the documented default (stdout, stderr, exit "
                          "status and files compared); only a reproducible behavioural difference is a violation",
                     assumptions=["--seed (documented as time dependent), --help, and the download/upload/completion/help commands are not run",
                                  "commands are run on a two-tree Newick standard input; a command that fails identically both ways is not informative"])


# ------------------------------------------------------------------------------------------------
# C18: determinism

DET_MODEL_CFG = """SPECIFICATION Spec
CONSTANTS
  Keys = {%s}
  Special = {%s}
  Pattern = "%s"
INVARIANTS SameOutput Meant
CHECK_DEADLOCK FALSE
"""


@pipeline("C18")
def determinism_family(run, replay):
    run.build_harness()
    gotree = run.build_gotree()
    keys = "1, 2, 3, 4, 5" if run.tier == "quick" else "1, 2, 3, 4, 5, 6"
    special = "4, 5" if run.tier == "quick" else "5, 6"
    for pat in ("dumpSorted", "dropByValue", "applyAll"):
        vk.run_model(run, "Determinism-" + pat, "Determinism.tla", DET_MODEL_CFG % (keys, special, pat), workers=4, heap="4g")
    # the order-sensitive patterns the code used to contain: TLC must find the two runs that differ
    sens = {}
    for pat in ("dump", "dropLast2"):
        out = vk.run_model(run, "Determinism-" + pat, "Determinism.tla", DET_MODEL_CFG % (keys, special, pat), workers=4, heap="4g", expect_ok=False)
        sens[pat] = "is violated" in out
    run.extra["order_sensitive_patterns_refuted_by_tlc"] = sens
    if not all(sens.values()):
        raise vk.Infra("the determinism model did not refute an order-sensitive pattern (vacuous model)")
    reps = 3 if run.tier == "quick" else 12
    shards = vk.NCPU
    cfg = "SPECIFICATION Spec\nPOSTCONDITION Accepted\nCHECK_DEADLOCK FALSE\n"

    def job(i):
        def f():
            d = os.path.join(run.work, "det-%d" % i)
            os.makedirs(d, exist_ok=True)
            path = os.path.join(d, "det.ndjson")
            s = vk.run_driver(run, ["det", "--gotree", gotree, "--out", path, "--seed", str(run.seed), "--reps", str(reps),
                                    "--shard", str(i), "--nshards", str(shards)], path, timeout=3000)
            r = vk.validate_trace(run, path, "TraceDet.tla", cfg)
            r["summary"] = s
            return r
        return f
    res = vk.parallel([job(i) for i in range(shards)])
    collect(run, res)
    run.traces = sum(r["summary"].get("events", 0) for r in res)
    run.extra["command_templates"] = res[0]["summary"].get("templates", 0)
    run.extra["runs_with_exit_status_0"] = sum(r["summary"].get("runs_rc0", 0) for r in res)
    run.extra["repetitions_per_key"] = reps
    for r in res[:2]:
        run.samples += vk.sample_events(r["path"], 1)
    if replay:
        run.replay_of = replay
    return vk.finish(run,
                     rule="model: self-composition of the map-ranging patterns of the code (Determinism.tla): two runs, each with its own "
                          "iteration order, must produce the same output - TLC proves it for the sorted / by-value / index-based patterns and "
                          "refutes the order-sensitive ones; real code: every command template (inputs incl. protein alignments with X, "
                          "IUPAC nucleotides) run repeatedly in new processes with the same options and seed, with 1 and 4 threads, plus "
                          "library calls repeated in one process; TLC checks that a key always shows the same output (bag of records when "
                          "threads > 1)",
                     assumptions=["dates and scratch directory names written into log files are masked", "absence of order dependence at a site "
                                  "the model does not describe rests on the repetitions (new process each time)"])


# ------------------------------------------------------------------------------------------------
# C01 (and the Newick part of C02): Newick token machine

NEWICK_MODEL_CFG = """SPECIFICATION Spec
CONSTANTS
  MaxToks = %d
  Emit = TRUE
INVARIANTS Total RoundTrip
ACTION_CONSTRAINT EmitTransition
VIEW StateView
CHECK_DEADLOCK FALSE
"""

NEWICK_TRACE_CFG = """SPECIFICATION Spec
CONSTANT PROPS = {%s}
POSTCONDITION Accepted
CHECK_DEADLOCK FALSE
"""


def newick_model(run, prop, maxtoks):
    import models
    out = vk.run_model(run, "Newick-%d" % maxtoks, "Newick.tla", NEWICK_MODEL_CFG % maxtoks, workers=vk.NCPU, heap="8g")
    cases_path, n = models.emit_cases(run, prop, [out])
    models.replay_cases(run, prop, cases_path, n, "nw-replay", "TraceNewick.tla", NEWICK_TRACE_CFG % ('"%s"' % prop), per_shard=400)
    run.extra["model_bounds"] = dict(max_tokens=maxtoks, alphabet=14)


@pipeline("C01")
def newick_family(run, replay):
    run.build_harness()
    cfg = NEWICK_TRACE_CFG % '"C01"'
    if replay:
        with open(replay) as f:
            hdr = json.loads(f.readline())
        run.replay_of = replay
        p = os.path.join(run.work, "replay.ndjson")
        if "model_case" in hdr:
            cp = os.path.join(run.work, "cases-replay.ndjson")
            with open(cp, "w") as f:
                f.write(json.dumps(hdr["model_case"]) + "\n")
            vk.run_driver(run, ["nw-replay", "--prop", "C01", "--cases", cp, "--out", p], p)
        else:
            parts = hdr.get("case", "").split("-")
            seed, k = int(parts[1][1:]), int(parts[2][1:])
            maxtips = 40 if hdr.get("tier", "quick") == "quick" else 80
            vk.run_driver(run, ["nw", "--seed", str(seed), "--from", str(k), "--to", str(k + 1), "--maxtips", str(maxtips), "--out", p], p)
        r = vk.validate_trace(run, p, "TraceNewick.tla", cfg)
        collect(run, [r])
        run.traces = 1
        run.samples += vk.sample_events(r["path"], 1)
        return vk.finish(run, rule="replay of one recorded case on the current /repo")
    newick_model(run, "C01", 7 if run.tier == "quick" else 9)
    ncases, maxtips = (1600, 40) if run.tier == "quick" else (12000, 80)
    shards = vk.NCPU
    per = math.ceil(ncases / shards)

    def job(i):
        def f():
            path = os.path.join(run.work, "nw-%d.ndjson" % i)
            s = vk.run_driver(run, ["nw", "--seed", str(run.seed), "--from", str(i * per), "--to", str(min(ncases, (i + 1) * per)),
                                    "--maxtips", str(maxtips), "--out", path], path)
            r = vk.validate_trace(run, path, "TraceNewick.tla", cfg, heap="4g")
            r["summary"] = s
            return r
        return f
    res = vk.parallel([job(i) for i in range(shards)])
    collect(run, res)
    run.traces += sum(r["summary"].get("events", 0) for r in res)
    run.samples += vk.sample_events(res[0]["path"], 1, maxlen=4000)
    return vk.finish(run,
                     rule="model: the Newick parser as a machine fed one token at a time (Newick.tla), every token of a 14-token alphabet in "
                          "every state up to the bound, invariant RoundTrip (every accepted tree of the domain survives Write then Parse and "
                          "writes identically again); every transition is concretised to text (with and without blanks) and given to the real "
                          "parser, every accepted in-domain tree is built through the API and written by the real writer; real code: random "
                          "decorated trees (up to 200 / 600 tips, multifurcations, inner names or supports with p-values, node and branch "
                          "comments, hard float64 values incl. subnormals and 1.8e308) written, parsed and written again; TLC checks writer "
                          "tokens = Write(D), parser result = Parse(tokens), parsed tree = D and identical second text",
                     assumptions=["numeric values are symbols recognised bit-exactly by the harness (decimal formatting itself is stdlib)",
                                  "tip names that look numeric are not generated by the random driver (the model alphabet covers them)"])


# ------------------------------------------------------------------------------------------------
# C13 (conversions, stream splitter, first vs multi) and C02 (readers are total)

SPLITTER_CFG = """SPECIFICATION Spec
CONSTANTS
  MaxLines = %d
  MaxLen = %d
  Emit = TRUE
INVARIANTS NoIndexUnderflow Progress GroupsAreTheChunks EmitDoc
CHECK_DEADLOCK FALSE
"""

DOCS_TRACE_CFG = """SPECIFICATION Spec
CONSTANT PROPS = {%s}
POSTCONDITION Accepted
CHECK_DEADLOCK FALSE
"""


def splitter_model(run, prop):
    import models
    ml, mlen = (3, 2) if run.tier == "quick" else (4, 2)
    out = vk.run_model(run, "Splitter", "Splitter.tla", SPLITTER_CFG % (ml, mlen), workers=vk.NCPU, heap="8g")
    cases_path, n = models.emit_cases(run, prop, [out], name="splitcases")
    models.replay_cases(run, prop, cases_path, n, "split-replay", "TraceDocs.tla", DOCS_TRACE_CFG % ('"%s"' % prop), per_shard=300)
    run.extra["splitter_model_bounds"] = dict(max_lines=ml, max_line_length=mlen, alphabet=["x", ";", " "])


NEXUS_DOCS_CFG = """SPECIFICATION Spec
CONSTANTS
  Level = %d
  Emit = TRUE
INVARIANTS BaseWellFormed EmitDoc
CHECK_DEADLOCK FALSE
"""


def nexus_docs_model(run, prop, level):
    import models
    out = vk.run_model(run, "NexusDocs", "NexusDocs.tla", NEXUS_DOCS_CFG % level, workers=8, heap="6g")
    cases_path, n = models.emit_cases(run, prop, [out], name="nexuscases")
    models.replay_cases(run, prop, cases_path, n, "nexus-replay", "TraceDocs.tla", DOCS_TRACE_CFG % ('"%s"' % prop), per_shard=300)
    run.extra["nexus_grammar_documents"] = dict(deviation_level=level, documents=n)


def sharded(run, driver, prop, ncases, spec, cfg, extra_args=(), tag="rnd", timeout=1800, shards=None, per_shard_args=None):
    shards = shards or vk.NCPU
    per = math.ceil(ncases / shards)

    def job(i):
        def f():
            path = os.path.join(run.work, "%s-%s-%d.ndjson" % (tag, prop, i))
            more = per_shard_args(i, shards) if per_shard_args else []
            s = vk.run_driver(run, [driver, "--seed", str(run.seed), "--from", str(i * per), "--to", str(min(ncases, (i + 1) * per)),
                                    "--out", path] + list(extra_args) + more, path, timeout=timeout)
            r = vk.validate_trace(run, path, spec, cfg)
            r["summary"] = s
            return r
        return f
    res = vk.parallel([job(i) for i in range(shards)])
    collect(run, res)
    run.traces += sum(r["summary"].get("events", 0) for r in res)
    if res:
        run.samples += vk.sample_events(res[0]["path"], 1, maxlen=3000)
    return res


@pipeline("C13")
def conversions_family(run, replay):
    run.build_harness()
    cfg = DOCS_TRACE_CFG % '"C13"'
    if replay:
        with open(replay) as f:
            hdr = json.loads(f.readline())
        run.replay_of = replay
        p = os.path.join(run.work, "replay.ndjson")
        if "model_case" in hdr:
            cp = os.path.join(run.work, "cases-replay.ndjson")
            with open(cp, "w") as f:
                f.write(json.dumps(hdr["model_case"]) + "\n")
            vk.run_driver(run, ["split-replay", "--prop", "C13", "--cases", cp, "--out", p], p)
        else:
            parts = hdr.get("case", "").split("-")
            seed, k = int(parts[1][1:]), int(parts[2][1:])
            vk.run_driver(run, ["docs", "--seed", str(seed), "--from", str(k), "--to", str(k + 1), "--out", p, "--gotree", run.build_gotree(),
                                "--maxtips", "20" if hdr.get("tier", "quick") == "quick" else "40"], p)
        r = vk.validate_trace(run, p, "TraceDocs.tla", cfg)
        collect(run, [r])
        run.traces = 1
        return vk.finish(run, rule="replay of one recorded case on the current /repo")
    splitter_model(run, "C13")
    nexus_docs_model(run, "C13", 1)
    ncases, maxtips = (1600, 20) if run.tier == "quick" else (40000, 40)
    gotree = run.build_gotree()
    sharded(run, "docs", "C13", ncases, "TraceDocs.tla", cfg, extra_args=["--maxtips", str(maxtips), "--gotree", gotree])
    return vk.finish(run,
                     rule="model: the stream splitter ReadUntilSemiColon / ReadMultiTrees loop as a machine over lines (Splitter.tla): every "
                          "document of the bound (lines over {other, ';', blank}), invariants no index underflow, progress, groups = the "
                          "chunks ending at each ';' (nothing skipped or duplicated); every document is fed to the real ReadUntilSemiColon "
                          "and the groups compared with the model's; real code: random lists of 1-50 trees on shared taxa (legal labels, with "
                          "and without lengths/supports/p-values, inner names, rooted or not) written as a Newick stream (blank lines, trees "
                          "spanning lines, no final newline), Nexus with and without translate table, PhyloXML, read back through "
                          "ReadMultiTrees and ReadTreeReader, converted back to Newick; TLC checks count, consecutive ids, tree equality, "
                          "first = first of multi; the Newick token machine of C01 covers the per-tree reader",
                     assumptions=["values are symbols recognised bit-exactly", "one tree per ';'-terminated line group is the splitter's contract",
                                  "Nextstrain documents (reader only) are exercised by C02's inputs"])


@pipeline("C02")
def readers_family(run, replay):
    run.build_harness()
    cfg = DOCS_TRACE_CFG % '"C02"'
    if replay:
        with open(replay) as f:
            hdr = json.loads(f.readline())
        run.replay_of = replay
        p = os.path.join(run.work, "replay.ndjson")
        case = hdr.get("case", "")
        if "model_case" in hdr and "toks" in hdr["model_case"]:
            cp = os.path.join(run.work, "cases-replay.ndjson")
            with open(cp, "w") as f:
                f.write(json.dumps(hdr["model_case"]) + "\n")
            vk.run_driver(run, ["nw-replay", "--prop", "C02", "--cases", cp, "--out", p], p)
            r = vk.validate_trace(run, p, "TraceNewick.tla", NEWICK_TRACE_CFG % '"C02"')
        elif "model_case" in hdr:
            cp = os.path.join(run.work, "cases-replay.ndjson")
            with open(cp, "w") as f:
                f.write(json.dumps(hdr["model_case"]) + "\n")
            vk.run_driver(run, ["split-replay", "--prop", "C02", "--cases", cp, "--out", p], p)
            r = vk.validate_trace(run, p, "TraceDocs.tla", cfg)
        elif "-sweep-" in case or "-struct-" in case:
            # a case of the systematic sweep: the whole sweep is re-run (a few seconds)
            vk.run_driver(run, ["readers", "--seed", "1", "--from", "0", "--to", "0", "--sweep", "--sweepmod", "1", "--sweepidx", "0", "--out", p], p, timeout=3000)
            r = vk.validate_trace(run, p, "TraceDocs.tla", cfg)
        else:
            parts = case.split("-")
            seed, k = int(parts[1][1:]), int(parts[2][1:])
            vk.run_driver(run, ["readers", "--seed", str(seed), "--from", str(k), "--to", str(k + 1), "--out", p], p)
            r = vk.validate_trace(run, p, "TraceDocs.tla", cfg)
        collect(run, [r])
        run.traces = 1
        return vk.finish(run, rule="replay of one recorded case on the current /repo")
    # the Newick parser: every token in every state (text given to the real parser, watchdog, delivered trees used)
    import models
    out = vk.run_model(run, "Newick", "Newick.tla", NEWICK_MODEL_CFG % (7 if run.tier == "quick" else 9), workers=vk.NCPU, heap="8g")
    cases_path, n = models.emit_cases(run, "C02", [out])
    models.replay_cases(run, "C02", cases_path, n, "nw-replay", "TraceNewick.tla", NEWICK_TRACE_CFG % '"C02"', per_shard=400)
    splitter_model(run, "C02")
    nexus_docs_model(run, "C02", 2 if run.tier == "quick" else 3)
    ncases = 4800 if run.tier == "quick" else 160000
    res = sharded(run, "readers", "C02", ncases, "TraceDocs.tla", cfg, timeout=3000,
                  per_shard_args=lambda i, n: ["--sweep", "--sweepmod", str(n), "--sweepidx", str(i)])
    oc = {}
    for r in res:
        for k, v in r["summary"].get("outcomes", {}).items():
            oc[k] = oc.get(k, 0) + v
    run.extra["reader_outcomes"] = oc
    return vk.finish(run,
                     rule="model: the Newick parser fed one token at a time (every token of the alphabet in every state, incl. end of input, "
                          "unterminated comment, stray bracket, ':' without number) and the stream splitter over every document of the bound - "
                          "both total by construction and by TLC's invariants; every transition / document is given as bytes to the real "
                          "readers; real code: valid documents of the five formats (Newick, Newick stream, Nexus with TAXA/CHARACTERS/TREES/"
                          "TRANSLATE/unknown blocks, PhyloXML, Nextstrain JSON) mutated (truncation, splices of format keywords and "
                          "metacharacters, deletions, duplications, byte flips, blank-only lines, nesting up to 40000) and read through "
                          "ReadMultiTrees and ReadTreeReader in an isolated worker process with a watchdog, plus a systematic sweep of the "
                          "small valid documents (every truncation; at every '=', bracket, separator and line end the variants that remove "
                          "the value / the closing bracket / the separator, double it, or insert a blank-only line); every delivered tree "
                          "is traversed, indexed and written; TLC flags crash, hang, unusable delivered tree",
                     assumptions=["a crash or a hang is re-run alone before being believed", "encoding/xml and encoding/json are not modelled: "
                                  "for PhyloXML and Nextstrain only crash/hang/usability are judged",
                                  "after 4 crashes or hangs in a shard the remaining inputs of that shard are not run"])


# ------------------------------------------------------------------------------------------------
# C11: worker pools

POOL_CFG = """SPECIFICATION Spec
CONSTANTS
  W = %d
  N = %d
  ErrAt = %d
  ErrAt2 = %d
  Kind = "%s"
  DoneOnError = %s
  Shared = %s
  CapIn = 2
  CapOut = 1
  Emit = %s
INVARIANTS ResultsSeq ErrorSurfaces EmitSchedule
PROPERTY CallerTerminates
CHECK_DEADLOCK FALSE
"""

POOL_TRACE_CFG = "SPECIFICATION Spec\nPOSTCONDITION Accepted\nCHECK_DEADLOCK FALSE\n"


@pipeline("C11")
def pool_family(run, replay):
    import models
    run.build_harness()
    if replay:
        with open(replay) as f:
            hdr = json.loads(f.readline())
        run.replay_of = replay
        p = os.path.join(run.work, "replay.ndjson")
        if "model_case" in hdr:
            cp = os.path.join(run.work, "cases-replay.ndjson")
            with open(cp, "w") as f:
                f.write(json.dumps(hdr["model_case"]) + "\n")
            vk.run_driver(run, ["pool-replay", "--prop", "C11", "--cases", cp, "--out", p], p)
        else:
            parts = hdr.get("case", "").split("-")
            seed, k = int(parts[1][1:]), int(parts[2][1:])
            run.build_harness(race=True)
            env = dict(os.environ, GORACE="log_path=%s halt_on_error=0" % os.path.join(run.work, "race-replay"))
            vk.run_driver(run, ["pool", "--seed", str(seed), "--from", str(k), "--to", str(k + 1), "--out", p], p, race=True, env=env)
        r = vk.validate_trace(run, p, "TracePool.tla", POOL_TRACE_CFG)
        collect(run, [r])
        run.traces = 1
        return vk.finish(run, rule="replay of one recorded case on the current /repo")
    # 1. the model: every interleaving of the bound; schedules emitted for the small configurations
    emit_cfgs, check_cfgs = [], []
    for kind in ("compare", "fbp"):
        for errat in (0, 1, 2):
            emit_cfgs.append((2, 2, errat, kind))
        check_cfgs.append((1, 2, 1, kind))
        check_cfgs.append((3, 2, 2, kind))       # more workers than trees
        check_cfgs.append((2, 3, 2, kind))
        check_cfgs.append((2, 3, 1, kind, 3))    # two erroneous trees (seeded C11-8: a second error must not block its worker)
        if run.tier == "thorough":
            check_cfgs += [(2, 3, 0, kind), (2, 3, 3, kind), (3, 3, 1, kind), (2, 4, 3, kind), (3, 3, 1, kind, 2), (2, 4, 2, kind, 4)]
    if run.tier == "thorough":
        emit_cfgs += [(2, 3, 2, "compare"), (3, 2, 1, "fbp")]
    outs = []

    def mjob(cfg, emit):
        def f():
            w, n, e, kind = cfg[:4]
            e2 = cfg[4] if len(cfg) > 4 else 0
            return vk.run_model(run, "WorkerPool-%s-%d-%d-%d-%d%s" % (kind, w, n, e, e2, "-emit" if emit else ""), "WorkerPool.tla",
                                POOL_CFG % (w, n, e, e2, kind, "TRUE", "FALSE", "TRUE" if emit else "FALSE"), workers=4, heap="6g")
        return f
    outs = vk.parallel([mjob(c, True) for c in emit_cfgs] + [mjob(c, False) for c in check_cfgs], nproc=4)
    # the two defects this property had in the code (040c220, 855db0c), as model variants: TLC must refute them
    refuted = {}
    o = vk.run_model(run, "WorkerPool-fbp-nodone", "WorkerPool.tla", POOL_CFG % (2, 2, 1, 0, "fbp", "FALSE", "FALSE", "FALSE"), workers=4, heap="4g", expect_ok=False)
    refuted["worker returns without wg.Done on an erroneous tree => caller never terminates"] = ("violated" in o)
    o = vk.run_model(run, "WorkerPool-compare-shared", "WorkerPool.tla", POOL_CFG % (2, 2, 0, 0, "compare", "TRUE", "TRUE", "FALSE"), workers=4, heap="4g", expect_ok=False)
    refuted["per-tree structure shared by the workers => records differ from the single-threaded run"] = ("violated" in o)
    run.extra["defect_variants_refuted_by_tlc"] = refuted
    if not all(refuted.values()):
        raise vk.Infra("the worker pool model did not refute a defective variant (vacuous model)")
    cases_path, n = models.emit_cases(run, "C11", outs[:len(emit_cfgs)])
    if run.tier == "quick" and n > 2400:
        # a seed-dependent sample of the schedules
        import random
        rnd = random.Random(run.seed)
        lines = open(cases_path).read().splitlines()
        keep = sorted(rnd.sample(range(len(lines)), 2400))
        with open(cases_path, "w") as f:
            for i in keep:
                f.write(lines[i] + "\n")
        n = 2400
    run.extra["schedules_forced_on_real_goroutines"] = n
    res = models.replay_cases(run, "C11", cases_path, n, "pool-replay", "TracePool.tla", POOL_TRACE_CFG, per_shard=150)
    run.extra["schedules_not_realizable"] = sum(r["summary"].get("unrealizable", 0) for r in res)
    # 2. free runs under the race detector
    run.build_harness(race=True)
    ncases = 640 if run.tier == "quick" else 16000
    shards = vk.NCPU
    per = math.ceil(ncases / shards)

    def job(i):
        def f():
            path = os.path.join(run.work, "pool-%d.ndjson" % i)
            env = dict(os.environ, GORACE="log_path=%s halt_on_error=0" % os.path.join(run.work, "race-%d" % i))
            s = vk.run_driver(run, ["pool", "--seed", str(run.seed), "--from", str(i * per), "--to", str(min(ncases, (i + 1) * per)), "--out", path],
                              path, race=True, env=env, timeout=3000, allow_fail=True)
            if s.get("_rc") not in (0, 66):
                raise vk.Infra("pool driver failed rc=%s: %s" % (s.get("_rc"), s.get("_stderr", "")[-2000:]))
            r = vk.validate_trace(run, path, "TracePool.tla", POOL_TRACE_CFG)
            r["summary"] = s
            return r
        return f
    res = vk.parallel([job(i) for i in range(shards)])
    collect(run, res)
    run.traces += sum(r["summary"].get("events", 0) for r in res)
    # 3. the threaded commands on files (erroneous / other-taxa tree at any position; thread counts)
    cli_stage(run, "C11", "TracePool.tla", POOL_TRACE_CFG)
    run.extra["free_runs_under_race_detector"] = ncases
    run.extra["race_reports_with_gotree_frames"] = sum(r["summary"].get("races", 0) for r in res)
    run.samples += vk.sample_events(res[0]["path"], 1)
    return vk.finish(run,
                     rule="model: WorkerPool.tla (PlusCal): reader, W workers, closer and caller over two channels, every interleaving for "
                          "the bounds (W in 1..3, 2-4 trees, an erroneous tree at every position, more workers than trees); properties: the "
                          "caller terminates (liveness under weak fairness), the collected records are those of the single-threaded run, an "
                          "erroneous tree reaches the caller; the two defects the code had are kept as model variants that TLC must refute. "
                          "real code: every complete behaviour of the small configurations is forced on the real goroutines through the gate "
                          "hooks (tree received, structures built, structures used, record sent, wg.Done) for Compare, CompareWeighted and FBP; "
                          "free runs with 1,2,3,4,16 and more-threads-than-trees on random collections incl. erroneous / other-taxa trees "
                          "under the Go race detector for the four pipelines; TLC judges termination, records = single-threaded records, "
                          "error surfaced, no data race report with a gotree frame",
                     assumptions=["the race detector is the sensor for unsynchronised accesses the model does not name", "a forced schedule that "
                                  "the real goroutines cannot follow (the code no longer has the gates in the modelled order) is a DRIFT note; "
                                  "the run then continues freely and is still judged",
                                  "TBE has no per-worker gate (its workers are anonymous closures): free runs only"])


# ------------------------------------------------------------------------------------------------
# the command-line layer of the edit and calc families (gotree binary built from /repo, one process per call)

CLI_CASES = {"C05": (240, 4000), "C06": (240, 4000), "C07": (240, 4000), "C17": (96, 1600), "C15": (240, 4000), "C03": (96, 1600),
             "C08": (160, 3000), "C09": (160, 3000), "C10": (96, 1600), "C12": (240, 4000), "C14": (240, 4000), "C16": (240, 4000),
             "C11": (160, 3000)}


def cli_stage(run, prop, spec, cfg):
    gotree = run.build_gotree()
    q, t = CLI_CASES[prop]
    n = q if run.tier == "quick" else t
    res = sharded(run, "cli", prop, n, spec, cfg, extra_args=["--prop", prop, "--gotree", gotree, "--maxtips", "10"], tag="cli", timeout=3000)
    run.extra["cli_commands_run"] = sum(r["summary"].get("commands_run", 0) for r in res)
    return res


# ------------------------------------------------------------------------------------------------
# replay of a TLC-emitted model case stored in a replay header (any family)

def replay_model_case(run, hdr):
    label = hdr.get("case", "")
    parts = label.split("-")
    tag = parts[1] if len(parts) == 3 else "case"
    prop = run.prop
    edit = ("replay-edit", "TraceEdit.tla", TRACE_CFG % ('"%s"' % prop, "TRUE"))
    calc = ("replay-calc", "TraceCalc.tla", CALC_CFG % ('"%s"' % prop))
    table = {"case2": edit, "splitcase": ("split-replay", "TraceDocs.tla", DOCS_TRACE_CFG % ('"%s"' % prop)),
             "nexuscase": ("nexus-replay", "TraceDocs.tla", DOCS_TRACE_CFG % ('"%s"' % prop))}
    default = {"C03": edit, "C05": edit, "C06": edit, "C07": edit, "C15": edit, "C17": edit,
               "C01": ("nw-replay", "TraceNewick.tla", NEWICK_TRACE_CFG % '"C01"'), "C02": ("nw-replay", "TraceNewick.tla", NEWICK_TRACE_CFG % '"C02"'),
               "C11": ("pool-replay", "TracePool.tla", POOL_TRACE_CFG)}
    driver, spec, cfg = table.get(tag) or default.get(prop, calc)
    cp = os.path.join(run.work, "cases-replay.ndjson")
    with open(cp, "w") as f:
        f.write(json.dumps(hdr["model_case"]) + "\n")
    p = os.path.join(run.work, "replay.ndjson")
    vk.run_driver(run, [driver, "--prop", prop, "--tag", tag, "--cases", cp, "--out", p], p)
    r = vk.validate_trace(run, p, spec, cfg)
    collect(run, [r])
    run.traces = 1
    run.samples += vk.sample_events(r["path"], 1)
    return vk.finish(run, rule="replay of one TLC-emitted model case on the current /repo")


def _wrap_replay(fn):
    def g(run, replay=None):
        if replay:
            try:
                with open(replay) as f:
                    hdr = json.loads(f.readline())
            except Exception:
                hdr = {}
            if "model_case" in hdr:
                run.build_harness()
                run.replay_of = replay
                return replay_model_case(run, hdr)
            if is_stats_case(hdr):
                run.build_harness()
                run.replay_of = replay
                return stats_replay(run, hdr)
        return fn(run, replay)
    return g


for _k in list(PIPELINES):
    PIPELINES[_k] = _wrap_replay(PIPELINES[_k])
