"""Per-property pipelines. Each returns the exit code of the check."""
import json
import math
import os
import shutil

import vk

PIPELINES = {}


def pipeline(*ids):
    def deco(f):
        for i in ids:
            PIPELINES[i] = (lambda run, replay=None, _f=f, _i=i: _f(run, replay))
        return f
    return deco


TRACE_CFG = """SPECIFICATION Spec
CONSTANT PROPS = {%s}
CONSTANT CONFORM = %s
POSTCONDITION Accepted
CHECK_DEADLOCK FALSE
"""


def collect(run, results):
    for r in results:
        run.events += r["lines"]
        for f in r["fails"]:
            run.fails.append(list(f) + [r["path"]])
        for n in r.get("notes", []):
            run.notes.append(n)


# ------------------------------------------------------------------------------------------------
# Edit family: C03, C05, C06, C07, C15, C17 (+ the index part of C04)

EDIT_BOUNDS = {
    # prop: (quick histories, thorough histories, steps, maxtips quick, maxtips thorough)
    "C03": (480, 8000, 8, 11, 16),
    "C05": (640, 12000, 6, 11, 18),
    "C06": (640, 12000, 5, 12, 18),
    "C07": (640, 12000, 5, 12, 18),
    "C15": (480, 8000, 7, 10, 14),
    "C17": (480, 8000, 6, 10, 14),
    "C04": (320, 8000, 7, 11, 16),
}


def edit_random(run, prop, nhist, steps, maxtips, tag="rnd"):
    """Direction B: seeded random histories on the real code, validated by TraceEdit."""
    shards = min(vk.NCPU, max(1, nhist // 20))
    per = math.ceil(nhist / shards)
    cfg = TRACE_CFG % ('"%s"' % prop, "TRUE")

    def job(i):
        def f():
            path = os.path.join(run.work, "%s-%s-%d.ndjson" % (tag, prop, i))
            s = vk.run_driver(run, ["edit", "--prop", prop, "--seed", str(run.seed), "--from", str(i * per),
                                    "--to", str(min(nhist, (i + 1) * per)), "--steps", str(steps),
                                    "--maxtips", str(maxtips), "--out", path], path)
            r = vk.validate_trace(run, path, "TraceEdit.tla", cfg)
            r["summary"] = s
            return r
        return f
    res = vk.parallel([job(i) for i in range(shards)])
    collect(run, res)
    ops = {}
    for r in res:
        run.traces += r["summary"].get("histories", 0)
        for k, v in r["summary"].get("ops", {}).items():
            ops[k] = ops.get(k, 0) + v
    run.extra.setdefault("ops_executed_on_real_code", {})
    for k, v in ops.items():
        run.extra["ops_executed_on_real_code"][k] = run.extra["ops_executed_on_real_code"].get(k, 0) + v
    if res:
        run.samples += vk.sample_events(res[0]["path"], 2)
    return res


@pipeline("C03", "C05", "C06", "C07", "C15", "C17")
def edit_family(run, replay):
    prop = run.prop
    run.build_harness()
    q, t, steps, mq, mt = EDIT_BOUNDS[prop]
    nhist, maxtips = (q, mq) if run.tier == "quick" else (t, mt)
    if replay:
        return edit_replay(run, replay)
    try:
        import models
        models.edit_model(run, prop)
    except ImportError:
        pass
    edit_random(run, prop, nhist, steps, maxtips)
    return vk.finish(run,
                     rule="model: every transition of the bounded TreeOps model; real code: every TLC-emitted case replayed plus "
                          "seeded random histories of public editing calls on random multifurcating trees; each recorded call is one "
                          "TLC step judged by the property predicates of EditProps.tla",
                     assumptions=["gotree getters (Root, Neigh, Edges, Left, Right, Name, Comments, Length, Support, PValue) are trusted",
                                  "lengths/supports are dyadic so that float arithmetic is exact and equals the model's integer arithmetic",
                                  "TLC, CommunityModules, the Go projection and the reference Newick reader are trusted"])


def edit_replay(run, path):
    """Re-runs the recorded history (same seed, same history index) on the current /repo and validates it."""
    with open(path) as f:
        hdr = json.loads(f.readline())
    run.replay_of = path
    case = hdr.get("case", "")
    if "model_case" in hdr:
        cp = os.path.join(run.work, "cases-replay.ndjson")
        with open(cp, "w") as f:
            f.write(json.dumps(hdr["model_case"]) + "\n")
        p = os.path.join(run.work, "replay.ndjson")
        vk.run_driver(run, ["replay-edit", "--prop", run.prop, "--cases", cp, "--out", p], p)
        r = vk.validate_trace(run, p, "TraceEdit.tla", TRACE_CFG % ('"%s"' % run.prop, "TRUE"))
        collect(run, [r])
        run.traces = 1
        run.samples += vk.sample_events(r["path"], 2)
        return vk.finish(run, rule="replay of one TLC-emitted model case on the current /repo")
    # case label: <prop>-s<seed>-h<k>
    try:
        parts = case.split("-")
        seed = int(parts[1][1:])
        k = int(parts[2][1:])
    except Exception:
        raise vk.Infra("cannot parse case label %r of replay file" % case)
    run.seed = seed
    q, t, steps, mq, mt = EDIT_BOUNDS[run.prop]
    maxtips = mq if hdr.get("tier", "quick") == "quick" else mt
    p = os.path.join(run.work, "replay.ndjson")
    vk.run_driver(run, ["edit", "--prop", run.prop, "--seed", str(seed), "--from", str(k), "--to", str(k + 1),
                        "--steps", str(steps), "--maxtips", str(maxtips), "--out", p], p)
    r = vk.validate_trace(run, p, "TraceEdit.tla", TRACE_CFG % ('"%s"' % run.prop, "TRUE"))
    collect(run, [r])
    run.traces = 1
    run.samples += vk.sample_events(r["path"], 2)
    return vk.finish(run, rule="replay of one recorded history")


# ------------------------------------------------------------------------------------------------
# Computing entry points: C08, C09, C10, C12, C14 (+ hash / index part of C04, generators C16)

CALC_CFG = """SPECIFICATION Spec
CONSTANT PROPS = {%s}
POSTCONDITION Accepted
CHECK_DEADLOCK FALSE
"""

CALC_BOUNDS = {
    # prop: (quick cases, thorough cases, maxtips quick, maxtips thorough)
    "C08": (1600, 40000, 10, 16),
    "C09": (1600, 40000, 9, 14),
    "C10": (1200, 30000, 9, 14),
    "C12": (1200, 30000, 9, 13),
    "C14": (1600, 40000, 10, 16),
    "C04": (800, 20000, 10, 16),
    "C16": (600, 12000, 10, 16),
}


def calc_random(run, prop, ncases, maxtips, tag="calc"):
    """Direction B: seeded random cases on the real code, each recorded call validated by TraceCalc."""
    shards = min(vk.NCPU, max(1, ncases // 25))
    per = math.ceil(ncases / shards)
    cfg = CALC_CFG % ('"%s"' % prop)

    def job(i):
        def f():
            path = os.path.join(run.work, "%s-%s-%d.ndjson" % (tag, prop, i))
            s = vk.run_driver(run, ["calc", "--prop", prop, "--seed", str(run.seed), "--from", str(i * per),
                                    "--to", str(min(ncases, (i + 1) * per)), "--maxtips", str(maxtips), "--out", path], path)
            r = vk.validate_trace(run, path, "TraceCalc.tla", cfg)
            r["summary"] = s
            return r
        return f
    res = vk.parallel([job(i) for i in range(shards)])
    collect(run, res)
    kinds = run.extra.setdefault("calls_executed_on_real_code", {})
    for r in res:
        run.traces += r["summary"].get("events", 0)
        for k, v in r["summary"].get("kinds", {}).items():
            kinds[k] = kinds.get(k, 0) + v
    if res:
        run.samples += vk.sample_events(res[0]["path"], 2)
    return res


CALC_RULE = ("model: bounded enumeration by TLC (CalcModel) of small input trees x arguments, with the design-level "
             "theorems checked on every state and every case replayed on the real code; real code: seeded random "
             "cases (related tree pairs / collections under several presentations); every recorded call is one TLC "
             "step that recomputes the result from the definitions (CalcProps) on the projected input trees")
CALC_ASSUME = ["gotree getters (Root, Neigh, Edges, Left, Right, Name, Length, Support) are trusted",
               "input lengths are multiples of 2^-4 and supports multiples of 2^-6 so that sums are exact; quotients are compared "
               "with the exact rational within 10^-4",
               "TLC, CommunityModules and the Go projection are trusted"]


@pipeline("C08", "C09", "C10", "C14")
def calc_family(run, replay):
    prop = run.prop
    run.build_harness()
    q, t, mq, mt = CALC_BOUNDS[prop]
    n, maxtips = (q, mq) if run.tier == "quick" else (t, mt)
    if replay:
        return calc_replay(run, replay)
    import models
    models.calc_model(run, prop)
    calc_random(run, prop, n, maxtips)
    return vk.finish(run, rule=CALC_RULE, assumptions=CALC_ASSUME)


def calc_replay(run, path, spec="TraceCalc.tla"):
    """Re-runs one recorded case (same seed, same case index, or the TLC-emitted model case) on the current /repo."""
    with open(path) as f:
        hdr = json.loads(f.readline())
    run.replay_of = path
    case = hdr.get("case", "")
    p = os.path.join(run.work, "replay.ndjson")
    if "model_case" in hdr:
        cp = os.path.join(run.work, "cases-replay.ndjson")
        with open(cp, "w") as f:
            f.write(json.dumps(hdr["model_case"]) + "\n")
        vk.run_driver(run, ["replay-calc", "--prop", run.prop, "--cases", cp, "--out", p], p)
    else:
        try:
            parts = case.split("-")
            seed = int(parts[1][1:])
            k = int(parts[2][1:])
        except Exception:
            raise vk.Infra("cannot parse case label %r of replay file" % case)
        run.seed = seed
        q, t, mq, mt = CALC_BOUNDS[run.prop]
        maxtips = mq if hdr.get("tier", "quick") == "quick" else mt
        vk.run_driver(run, ["calc", "--prop", run.prop, "--seed", str(seed), "--from", str(k), "--to", str(k + 1),
                            "--maxtips", str(maxtips), "--out", p], p)
    r = vk.validate_trace(run, p, spec, CALC_CFG % ('"%s"' % run.prop))
    collect(run, [r])
    run.traces = 1
    run.samples += vk.sample_events(r["path"], 2)
    return vk.finish(run, rule="replay of one recorded case on the current /repo")


@pipeline("C12")
def pars_family(run, replay):
    run.build_harness()
    q, t, mq, mt = CALC_BOUNDS["C12"]
    n, maxtips = (q, mq) if run.tier == "quick" else (t, mt)
    if replay:
        return calc_replay(run, replay)
    import models
    models.pars_model(run)
    calc_random(run, "C12", n, maxtips)
    return vk.finish(run,
                     rule="model: every tree of the bound x every tip assignment (state sets when ambiguous) through the transcribed "
                          "passes of ParsModel.tla, design theorems as invariants, every initial state replayed on acr.ParsimonyAcr (three "
                          "algorithms) and asr.ParsimonyAsr; real code: seeded random multifurcating trees, 2-4 states, alignments of 1-4 "
                          "sites with and without IUPAC codes; each recorded reconstruction is one TLC step judged against the Sankoff "
                          "minimum and the MPR sets (ParsProps)",
                     assumptions=["gotree getters and node comments (where the reconstruction is written) are trusted",
                                  "the harness' IUPAC table is an input convention", "TLC, CommunityModules, goalign's alignment container"])


@pipeline("C04")
def index_family(run, replay):
    run.build_harness()
    if replay:
        with open(replay) as f:
            hdr = json.loads(f.readline())
        if "-h" in hdr.get("case", "") and "model_case" not in hdr:
            return edit_replay(run, replay)
        return calc_replay(run, replay)
    import models
    models.index_model(run)
    q, t, mq, mt = CALC_BOUNDS["C04"]
    n, maxtips = (q, mq) if run.tier == "quick" else (t, mt)
    calc_random(run, "C04", n, maxtips)
    q, t, steps, mq, mt = EDIT_BOUNDS["C04"]
    nhist, maxtips = (q, mq) if run.tier == "quick" else (t, mt)
    edit_random(run, "C04", nhist, steps, maxtips)
    return vk.finish(run,
                     rule="model: the bucket structure of hashmap.HashMap/EdgeIndex (EdgeIndex.tla) for every initial capacity and load "
                          "factor of the bound and every operation sequence, refinement invariant ActsLikeMap; every transition replayed on "
                          "the real index with real branches (two presentations per split); real code: random edit histories with the "
                          "recorded bitset/counts/depth/hash of every branch judged after every (re)indexing, all branch pairs of trees on "
                          "the same taxa under other rootings/orders (SameBipartition, HashEquals, hash codes), long random index sequences "
                          "through resizes, all 24 presentations of quartets",
                     assumptions=["gotree getters incl. Bitset/NumTipsLeft/NumTipsRight/TopoDepth/HashCode are read as data",
                                  "capacity 0 and load factor <= 0 are outside the constructor's domain",
                                  "the stored key of an index entry is read by reflection (the field is unexported)"])
