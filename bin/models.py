"""Model stages: TLC explores the operational models exhaustively (bounded), checks the listed properties on
the model (design level) and emits every transition as a case; the cases are replayed on the real code and the
recorded executions validated by the trace specifications (direction A)."""
import math
import os

import vk

ALL_OPS = ["Reroot", "RerootFirst", "UnRoot", "RerootMidPoint", "RerootOutGroup", "RemoveTips", "CollapseShortBranches",
           "CollapseLowSupport", "CollapseTopoDepth", "Resolve", "RemoveSingleNodes", "InsertIdenticalTips", "Rotate"]

EDIT_MODEL = {
    # prop: ops, quick (mintips, maxtips, patterns, depth), thorough (...)
    # last bound: trees with a chain of single-child nodes, two calls (re-rooting below / inside the chain, then removing it)
    "C03": (ALL_OPS, [(3, 4, [1, 6], 1), (3, 3, [1], 2, True, ["Reroot", "UnRoot", "RemoveSingleNodes", "RemoveTips"])],
            [(3, 4, [1, 2, 3, 4, 5, 6, 7, 8], 1), (5, 5, [1, 6, 7], 1), (3, 4, [1, 6], 2, True, ["Reroot", "UnRoot", "RemoveSingleNodes", "RemoveTips"])]),
    "C05": (["Reroot", "RerootFirst", "UnRoot", "RerootMidPoint", "RerootOutGroup", "Rotate"],
            [(3, 4, [1, 2, 3, 4, 6, 7, 8], 1), (5, 5, [4], 1)], [(3, 5, [1, 2, 3, 4, 5, 6, 7, 8], 1)]),
    "C06": (["RemoveTips"], [(4, 5, [1, 6, 5], 1), (4, 4, [1, 6], 1, True)], [(4, 5, [1, 2, 3, 4, 5, 6, 7, 8], 1), (6, 6, [1], 1), (4, 5, [1, 6, 7], 1, True)]),
    "C07": (["CollapseShortBranches", "CollapseLowSupport", "CollapseTopoDepth", "Resolve"],
            [(4, 4, [1, 2, 3, 6, 7, 8], 1), (5, 5, [6, 8], 1)], [(4, 5, [1, 2, 3, 4, 5, 6, 7, 8], 1)]),
    "C15": (["InsertIdenticalTips", "RemoveSingleNodes", "Reroot"], [(3, 4, [1, 3, 6], 2)], [(3, 5, [1, 3, 6, 7], 2)]),
}

MODEL_CFG = """SPECIFICATION Spec
CONSTANTS
  MaxTips = %d
  MinTips = %d
  Pats = {%s}
  MaxDepth = %d
  OpsOn = {%s}
  Emit = TRUE
  Chains = %s
INVARIANT ModelWellFormed
VIEW StateView
CHECK_DEADLOCK FALSE
"""


def edit_model(run, prop):
    if prop not in EDIT_MODEL:
        return
    import pipelines
    ops, quick, thorough = EDIT_MODEL[prop]
    bounds = quick if run.tier == "quick" else thorough
    cases_path = os.path.join(run.work, "cases-%s.ndjson" % prop)
    ncases = 0
    with open(cases_path, "w") as cf:
        for bi, b in enumerate(bounds):
            mn, mx, pats, depth = b[:4]
            chains = len(b) > 4 and b[4]
            bops = b[5] if len(b) > 5 else ops      # a bound may explore its own subset of the operations
            cfg = MODEL_CFG % (mx, mn, ",".join(map(str, pats)), depth, ",".join('"%s"' % o for o in bops), "TRUE" if chains else "FALSE")
            out = vk.run_model(run, "TreeOps-%s-%d" % (prop, bi), "TreeOps.tla", cfg, workers=vk.NCPU, heap="8g")
            for mf in vk.printed(out, "MODELFAIL"):
                run.model.setdefault("modelfails", set()).add(mf[0])
            seen = set()
            for c in vk.printed_json(out, "CASE"):
                if c in seen:
                    continue
                seen.add(c)
                cf.write(c + "\n")
                ncases += 1
    run.extra["model_cases_emitted"] = ncases
    run.extra["model_bounds"] = [dict(mintips=b[0], maxtips=b[1], patterns=b[2], depth=b[3], chains=(len(b) > 4 and b[4])) for b in bounds]
    if ncases == 0:
        raise vk.Infra("the model emitted no case (vacuous model run)")
    shards = min(vk.NCPU, max(1, ncases // 50))
    cfg = pipelines.TRACE_CFG % ('"%s"' % prop, "TRUE")

    def job(i):
        def f():
            path = os.path.join(run.work, "replay-%s-%d.ndjson" % (prop, i))
            s = vk.run_driver(run, ["replay-edit", "--prop", prop, "--cases", cases_path, "--shard", str(i),
                                    "--nshards", str(shards), "--out", path], path)
            r = vk.validate_trace(run, path, "TraceEdit.tla", cfg)
            r["summary"] = s
            return r
        return f
    res = vk.parallel([job(i) for i in range(shards)])
    pipelines.collect(run, res)
    replayed = 0
    for r in res:
        for k, v in r["summary"].get("ops", {}).items():
            replayed += v
            d = run.extra.setdefault("ops_executed_on_real_code", {})
            d[k] = d.get(k, 0) + v
    run.extra["model_transitions_replayed_on_real_code"] = replayed
    run.traces += replayed
    drift = [n for n in run.notes if n and n[0].startswith("DRIFT")]
    run.extra["drift_notes"] = len(drift)
    if res:
        run.samples += vk.sample_events(res[0]["path"], 1)

    # Design-level counterexamples (the transcribed algorithm violates a property on the model) are
    # believed only when the same predicate fails on the same operation in the real code.
    mfs = run.model.pop("modelfails", set())
    if mfs:
        real = {"%s.%s" % (f[2], f[1]) for f in run.fails}
        unrep = sorted(x for x in mfs if x not in real)
        run.extra["model_level_counterexamples"] = sorted(mfs)
        if unrep:
            raise vk.Infra("model-level counterexample(s) not reproduced on the real code (the model is wrong, not the code): %s" % unrep)


# ------------------------------------------------------------------------------------------------
# Computing entry points: CalcModel.tla

CALC_MODEL = {
    # prop: quick [(ntaxa, maxtrees, pattern)], thorough [...]
    "C08": ([(4, 1, 1), (5, 1, 1)], [(4, 1, 1), (4, 1, 8), (5, 1, 1), (5, 1, 8)]),
    "C09": ([(4, 3, 1)], [(4, 3, 1), (4, 3, 8), (5, 2, 1)]),
    "C10": ([(4, 2, 1)], [(4, 2, 1), (4, 3, 1), (5, 1, 1)]),
    "C14": ([(4, 0, 1), (4, 0, 6), (4, 0, 8), (5, 0, 1)], [(4, 0, 1), (4, 0, 2), (4, 0, 4), (4, 0, 6), (4, 0, 7), (4, 0, 8), (5, 0, 1), (5, 0, 6), (5, 0, 8), (6, 0, 1)]),
}

CALC_MODEL_CFG = """SPECIFICATION Spec
CONSTANTS
  Family = "%s"
  NTaxa = %d
  MaxTrees = %d
  Pat = %d
  Emit = TRUE
INVARIANTS TableIsFrequency SelectionIsThreshold FrequentSplitsFormATree SupportsAreDefinitions CompareIsSetDifference ClustersPartitionTheTips EmitCase
VIEW StateView
CHECK_DEADLOCK FALSE
"""


def replay_cases(run, prop, cases_path, ncases, driver, spec, cfg, per_shard=50):
    """Replays TLC-emitted cases on the real code (sharded) and validates the recordings with a trace spec."""
    import pipelines
    shards = min(vk.NCPU, max(1, ncases // per_shard))
    tag = os.path.basename(cases_path).split("-")[0]
    tag = tag[:-1] if tag.endswith("s") else tag          # cases -> case, splitcases -> splitcase

    def job(i):
        def f():
            path = os.path.join(run.work, "replay-%s-%s-%d.ndjson" % (prop, tag, i))
            s = vk.run_driver(run, [driver, "--prop", prop, "--tag", tag, "--cases", cases_path, "--shard", str(i),
                                    "--nshards", str(shards), "--out", path], path)
            r = vk.validate_trace(run, path, spec, cfg)
            r["summary"] = s
            return r
        return f
    res = vk.parallel([job(i) for i in range(shards)])
    pipelines.collect(run, res)
    replayed = 0
    kinds = run.extra.setdefault("calls_executed_on_real_code", {})
    for r in res:
        replayed += r["summary"].get("events", 0)
        for k, v in r["summary"].get("kinds", {}).items():
            kinds[k] = kinds.get(k, 0) + v
    run.extra["model_cases_replayed_calls"] = run.extra.get("model_cases_replayed_calls", 0) + replayed
    run.traces += replayed
    if res:
        run.samples += vk.sample_events(res[0]["path"], 1)
    return res


def emit_cases(run, prop, outs, name="cases"):
    """name = <tag>s : the tag goes into the case labels (<prop>-<tag>-<k>) and names the case file."""
    cases_path = os.path.join(run.work, "%s-%s.ndjson" % (name, prop))
    n = 0
    seen = set()
    with open(cases_path, "w") as cf:
        for out in outs:
            for c in vk.printed_json(out, "CASE"):
                if c in seen:
                    continue
                seen.add(c)
                cf.write(c + "\n")
                n += 1
    if n == 0:
        raise vk.Infra("the model emitted no case (vacuous model run)")
    run.extra["model_cases_emitted"] = run.extra.get("model_cases_emitted", 0) + n
    return cases_path, n


def calc_model(run, prop):
    import pipelines
    quick, thorough = CALC_MODEL[prop]
    bounds = quick if run.tier == "quick" else thorough
    outs = []
    for bi, (nt, mt, pat) in enumerate(bounds):
        cfg = CALC_MODEL_CFG % (prop, nt, mt, pat)
        outs.append(vk.run_model(run, "CalcModel-%s-%d" % (prop, bi), "CalcModel.tla", cfg, workers=vk.NCPU, heap="8g"))
    run.extra["model_bounds"] = [dict(ntaxa=b[0], maxtrees=b[1], pattern=b[2]) for b in bounds]
    cases_path, n = emit_cases(run, prop, outs)
    replay_cases(run, prop, cases_path, n, "replay-calc", "TraceCalc.tla", pipelines.CALC_CFG % ('"%s"' % prop))


# ------------------------------------------------------------------------------------------------
# Parsimony: ParsModel.tla

PARS_MODEL = {
    # quick [(ntips, nstates, ambiguous)], thorough [...]
    "C12": ([(3, 3, True), (4, 3, False), (4, 2, True)], [(3, 3, True), (4, 4, False), (4, 3, True), (5, 3, False), (5, 2, True)]),
}

PARS_MODEL_CFG = """SPECIFICATION Spec
CONSTANTS
  NTips = %d
  NStates = %d
  Ambiguous = %s
  Emit = TRUE
INVARIANTS StepsAreMinimal RootingIndependent TwoPassMPRIsDefinition DownpassIsMPR NarrowedSetsInsideMPR TipsUnaltered UnambiguousIsOptimal EmitCase
CHECK_DEADLOCK FALSE
"""


def pars_model(run, prop="C12"):
    import pipelines
    quick, thorough = PARS_MODEL[prop]
    bounds = quick if run.tier == "quick" else thorough
    outs = []
    for bi, (nt, ns, amb) in enumerate(bounds):
        cfg = PARS_MODEL_CFG % (nt, ns, "TRUE" if amb else "FALSE")
        outs.append(vk.run_model(run, "ParsModel-%d" % bi, "ParsModel.tla", cfg, workers=vk.NCPU, heap="8g"))
    run.extra["model_bounds"] = [dict(ntips=b[0], nstates=b[1], ambiguous_tip_sets=b[2]) for b in bounds]
    cases_path, n = emit_cases(run, prop, outs)
    replay_cases(run, prop, cases_path, n, "replay-calc", "TraceCalc.tla", pipelines.CALC_CFG % ('"%s"' % prop))


# ------------------------------------------------------------------------------------------------
# Split-keyed index: EdgeIndex.tla

IDX_MODEL = ([(3, 4, "{1, 2, 3, 4, 8}", "{1, 2, 3}")], [(3, 5, "{1, 2, 3, 4, 8}", "{1, 2, 3, 4, 5}"), (4, 4, "{1, 2, 4}", "{1, 2, 3}")])

IDX_MODEL_CFG = """SPECIFICATION Spec
CONSTANTS
  NKeys = %d
  MaxOps = %d
  Caps = %s
  Loads = %s
  Emit = TRUE
INVARIANTS ActsLikeMap AnswersLikeMap
ACTION_CONSTRAINT EmitTransition
VIEW StateView
CHECK_DEADLOCK FALSE
"""


def index_model(run, prop="C04"):
    import pipelines
    bounds = IDX_MODEL[0] if run.tier == "quick" else IDX_MODEL[1]
    outs = []
    for bi, (nk, mo, caps, loads) in enumerate(bounds):
        outs.append(vk.run_model(run, "EdgeIndex-%d" % bi, "EdgeIndex.tla", IDX_MODEL_CFG % (nk, mo, caps, loads), workers=vk.NCPU, heap="8g"))
    run.extra["index_model_bounds"] = [dict(nkeys=b[0], maxops=b[1], capacities=b[2], loadfactors=b[3]) for b in bounds]
    cases_path, n = emit_cases(run, prop, outs)
    replay_cases(run, prop, cases_path, n, "replay-calc", "TraceCalc.tla", pipelines.CALC_CFG % ('"%s"' % prop), per_shard=500)


# ------------------------------------------------------------------------------------------------
# NNI neighbourhood: NNIModel.tla

NNI_MODEL_CFG = """SPECIFICATION Spec
CONSTANTS
  NTips = %d
  Emit = TRUE
INVARIANTS TwoPerInnerBranch PairwiseDistinct OneSplitEachWay EmitCase
CHECK_DEADLOCK FALSE
"""


def nni_model(run):
    import pipelines
    sizes = [4, 5] if run.tier == "quick" else [4, 5, 6]
    outs = [vk.run_model(run, "NNIModel-%d" % n, "NNIModel.tla", NNI_MODEL_CFG % n, workers=8, heap="6g") for n in sizes]
    cases_path, n = emit_cases(run, "C17", outs)
    run.extra["model_bounds"] = [dict(binary_trees_with_tips=k, every_inner_node_as_root=True) for k in sizes]
    res = replay_cases(run, "C17", cases_path, n, "replay-edit", "TraceEdit.tla", pipelines.TRACE_CFG % ('"C17"', "TRUE"), per_shard=25)
    for r in res:
        for k, v in r["summary"].get("ops", {}).items():
            d = run.extra.setdefault("ops_executed_on_real_code", {})
            d[k] = d.get(k, 0) + v


# ------------------------------------------------------------------------------------------------
# C15: operations involving a second tree: TwoTrees.tla

TWO_TREES_CFG = """SPECIFICATION Spec
CONSTANTS
  MaxTips = %d
  Pats = {%s}
  Emit = TRUE
INVARIANTS LocalEditsKeepTheRest EmitCases
CHECK_DEADLOCK FALSE
"""


def two_trees_model(run):
    import pipelines
    mt, pats = (4, "1, 6") if run.tier == "quick" else (5, "1, 3, 6, 7")
    out = vk.run_model(run, "TwoTrees", "TwoTrees.tla", TWO_TREES_CFG % (mt, pats), workers=8, heap="6g")
    cases_path, n = emit_cases(run, "C15", [out], name="case2s")
    run.extra["two_tree_model_bounds"] = dict(maxtips=mt, patterns=pats, second_trees=["cherry", "rooted3", "star3"])
    res = replay_cases(run, "C15", cases_path, n, "replay-edit", "TraceEdit.tla", pipelines.TRACE_CFG % ('"C15"', "TRUE"), per_shard=40)
    for r in res:
        for k, v in r["summary"].get("ops", {}).items():
            d = run.extra.setdefault("ops_executed_on_real_code", {})
            d[k] = d.get(k, 0) + v
