package main

import (
	"math/rand"
	"reflect"
	"unsafe"

	"github.com/evolbioinfo/gotree/tree"
)

// C04: hashes / equality of branches across presentations, the split-keyed index against a plain map,
// quartet hashing.

type idxOp struct {
	Op   string `json:"op"`
	Key  int    `json:"key"`
	Pres int    `json:"pres"`
	Cnt  int    `json:"cnt"`
}

func foldHash(h uint64) int { return int((h ^ (h >> 30) ^ (h >> 60)) & ((1 << 30) - 1)) }

// reads the unexported key/val of a tree.KeyValue (EdgeIndex.Edges is the only way to list the content)
func kvKey(kv *tree.KeyValue) (*tree.Edge, int) {
	v := reflect.ValueOf(kv).Elem()
	kf := v.FieldByName("key")
	vf := v.FieldByName("val")
	e := *(**tree.Edge)(unsafe.Pointer(kf.UnsafeAddr()))
	info := *(**tree.EdgeIndexInfo)(unsafe.Pointer(vf.UnsafeAddr()))
	return e, info.Count
}

// two presentations of the same tree description + an unrelated tree on the same taxa
func threeTrees(r *rand.Rand, gp *GenParams, maxT int) ([]*tree.Tree, *STree) {
	nt := pickTips(r, maxT)
	names := tipNamesN("t", nt)
	a := genSTreeOn(r, gp, names, r.Intn(3) == 0, 0, 0)
	b := a.clone()
	b.shuffleKids(r)
	if r.Intn(2) == 0 {
		b.nni(r)
	}
	c := genSTreeOn(r, gp, names, false, 0, 0)
	ts := []*tree.Tree{present(r, a, r.Intn(4)), present(r, b, 1+r.Intn(3)), present(r, c, r.Intn(4))}
	return ts, a
}

func hashPairs(t1, t2 *tree.Tree, label string) *CEvent {
	opt := ProjOpt{Idx: true}
	p1, p2 := project(t1, opt), project(t2, opt)
	ev := &CEvent{Kind: "HashPairs", Prop: "C04", Case: label, Trees: []*PTree{p1, p2}}
	ev.guard(calcTimeout, func() error {
		same := [][]bool{}
		heq := [][]bool{}
		for _, e := range p1.edges {
			rs, rh := []bool{}, []bool{}
			for _, f := range p2.edges {
				rs = append(rs, e.SameBipartition(f))
				rh = append(rh, e.HashEquals(f))
			}
			same = append(same, rs)
			heq = append(heq, rh)
		}
		ev.Res = map[string]interface{}{"same": same, "heq": heq}
		return nil
	})
	return ev
}

type keyRef struct {
	T int `json:"t"`
	E int `json:"e"`
}

// runs an operation sequence on a real EdgeIndex; keyOf(key,pres) gives the real branch
func indexOps(ps []*PTree, capacity uint64, lnum, lden int, ops []idxOp, keyOf func(k, p int) keyRef, label string) *CEvent {
	rops := []map[string]interface{}{}
	for _, o := range ops {
		kr := keyOf(o.Key, o.Pres)
		rops = append(rops, map[string]interface{}{"op": o.Op, "t": kr.T, "e": kr.E, "cnt": o.Cnt})
	}
	ev := &CEvent{Kind: "IndexOps", Prop: "C04", Case: label, Trees: ps,
		Args: map[string]interface{}{"cap": capacity, "loadnum": lnum, "loadden": lden, "ops": rops}}
	ev.guard(calcTimeout, func() error {
		ix := tree.NewEdgeIndex(capacity, float64(lnum)/float64(lden))
		results := []map[string]interface{}{}
		for _, o := range ops {
			kr := keyOf(o.Key, o.Pres)
			e := ps[kr.T-1].edge(kr.E)
			res := map[string]interface{}{"ok": true, "cnt": 0, "len": 0}
			switch o.Op {
			case "Put":
				if err := ix.PutEdgeValue(e, o.Cnt, e.Length()); err != nil {
					return err
				}
			case "Add":
				if err := ix.AddEdgeCount(e); err != nil {
					return err
				}
			default:
				v, ok := ix.Value(e)
				if ok {
					res = map[string]interface{}{"ok": true, "cnt": v.Count, "len": toUnits(v.Len)}
				} else {
					res = map[string]interface{}{"ok": false, "cnt": 0, "len": 0}
				}
			}
			results = append(results, res)
		}
		final := []map[string]interface{}{}
		for _, kv := range ix.Edges(-1, 1<<30) {
			e, cnt := kvKey(kv)
			found := false
			for ti, p := range ps {
				if id, ok := p.edgeId[e]; ok {
					final = append(final, map[string]interface{}{"t": ti + 1, "e": id, "cnt": cnt})
					found = true
					break
				}
			}
			if !found {
				final = append(final, map[string]interface{}{"t": 1, "e": 1, "cnt": -12345})
			}
		}
		ev.Res = map[string]interface{}{"results": results, "final": final}
		return nil
	})
	return ev
}

func quartetCase(r *rand.Rand, label string, nq int) *CEvent {
	// presentations of one or two taxon quadruples
	base := r.Perm(9)[:4]
	other := append([]int{}, base...)
	other[r.Intn(4)] = 9 + r.Intn(3)
	perms := [][]int{}
	var rec func(a []int, k int)
	rec = func(a []int, k int) {
		if k == len(a) {
			perms = append(perms, append([]int{}, a...))
			return
		}
		for i := k; i < len(a); i++ {
			a[k], a[i] = a[i], a[k]
			rec(a, k+1)
			a[k], a[i] = a[i], a[k]
		}
	}
	rec([]int{0, 1, 2, 3}, 0)
	quads := [][]int{}
	for _, p := range perms {
		quads = append(quads, []int{base[p[0]], base[p[1]], base[p[2]], base[p[3]]})
	}
	for i := 0; i < nq; i++ {
		p := perms[r.Intn(len(perms))]
		quads = append(quads, []int{other[p[0]], other[p[1]], other[p[2]], other[p[3]]})
	}
	ev := &CEvent{Kind: "Quartets", Prop: "C04", Case: label, Args: map[string]interface{}{"quads": quads}}
	ev.guard(calcTimeout, func() error {
		qs := []*tree.Quartet{}
		for _, q := range quads {
			qs = append(qs, &tree.Quartet{T1: uint(q[0]), T2: uint(q[1]), T3: uint(q[2]), T4: uint(q[3])})
		}
		h := []int{}
		eq := [][]bool{}
		cmp := [][]int{}
		for _, a := range qs {
			h = append(h, foldHash(a.HashCode()))
			re, rc := []bool{}, []int{}
			for _, b := range qs {
				re = append(re, a.HashEquals(b))
				rc = append(rc, a.Compare(b))
			}
			eq = append(eq, re)
			cmp = append(cmp, rc)
		}
		ev.Res = map[string]interface{}{"h": h, "eq": eq, "cmp": cmp}
		return nil
	})
	return ev
}

func caseC04(r *rand.Rand, cw *CalcWriter, label string, maxT int) {
	gp := calcGen(maxT)
	gp.PZeroLen = 0.05
	switch r.Intn(4) {
	case 0:
		cw.emit(quartetCase(r, label, 4))
	case 1:
		ts, _ := threeTrees(r, &gp, maxT)
		cw.emit(hashPairs(ts[0], ts[1], label))
		cw.emit(hashPairs(ts[0], ts[2], label))
	default:
		// long random sequences over the branches of three trees, through several resizes
		ts, _ := threeTrees(r, &gp, maxT)
		opt := ProjOpt{Idx: true}
		ps := projAll(ts, opt)
		caps := []uint64{1, 2, 3, 4, 8, 16, 128}
		loads := [][2]int{{1, 2}, {3, 4}, {1, 1}, {1, 4}, {2, 1}}
		ld := loads[r.Intn(len(loads))]
		nops := 10 + r.Intn(60)
		ops := []idxOp{}
		refs := []keyRef{}
		for i := 0; i < nops; i++ {
			ti := r.Intn(3)
			refs = append(refs, keyRef{ti + 1, 1 + r.Intn(len(ps[ti].E))})
			ops = append(ops, idxOp{Op: []string{"Put", "Add", "Add", "Value", "Value"}[r.Intn(5)], Key: i, Pres: 0, Cnt: 1 + r.Intn(9)})
		}
		cw.emit(indexOps(ps, caps[r.Intn(len(caps))], ld[0], ld[1], ops, func(k, p int) keyRef { return refs[k] }, label))
	}
}

// replay of EdgeIndex.tla cases: abstract key k in presentation p = the branch carrying the k-th split of a
// fixed tree in its p-th presentation (other rooting, other orientation of the branch)
var idxFix struct {
	ps   []*PTree
	keys map[[2]int]keyRef
}

func idxFixture(nkeys int) {
	if idxFix.ps != nil {
		return
	}
	r := rand.New(rand.NewSource(4242))
	gp := calcGen(9)
	gp.PMulti = 0
	gp.PZeroLen = 0
	names := tipNamesN("t", 8)
	s := genSTreeOn(r, &gp, names, false, 0, 0)
	t1 := present(r, s, 0)
	s2 := s.clone()
	s2.shuffleKids(r)
	s2.relen(r, &gp, true)
	t2 := present(r, s2, 1)
	opt := ProjOpt{Idx: true}
	idxFix.ps = []*PTree{project(t1, opt), project(t2, opt)}
	idxFix.keys = map[[2]int]keyRef{}
	// inner branches of t1 in id order are the abstract keys; the same split is located in t2 by tip sets
	k := 0
	for e1 := range idxFix.ps[0].E {
		side := idxFix.ps[0].sideOf(e1 + 1)
		if len(side) < 2 || len(side) > len(names)-2 {
			continue
		}
		k++
		idxFix.keys[[2]int{k, 1}] = keyRef{1, e1 + 1}
		for e2 := range idxFix.ps[1].E {
			s2 := idxFix.ps[1].sideOf(e2 + 1)
			if sameOrComplement(side, s2, names) {
				idxFix.keys[[2]int{k, 2}] = keyRef{2, e2 + 1}
			}
		}
	}
	if k < nkeys {
		fatal("index fixture has only %d keys", k)
	}
}

func sameOrComplement(a, b, all []string) bool {
	eq := func(x, y []string) bool {
		if len(x) != len(y) {
			return false
		}
		m := map[string]bool{}
		for _, s := range x {
			m[s] = true
		}
		for _, s := range y {
			if !m[s] {
				return false
			}
		}
		return true
	}
	return eq(a, b) || eq(a, complement(all, b))
}

func replayCalcExtra2(cw *CalcWriter, c *calcCase, label string, k int) {
	switch c.Fam {
	case "C04idx":
		idxFixture(c.NKeys)
		cw.emit(indexOps(idxFix.ps, uint64(c.Cap), c.LoadNum, c.LoadDen, c.Ops, func(key, p int) keyRef {
			kr, ok := idxFix.keys[[2]int{key, p}]
			if !ok {
				fatal("no branch for key %d presentation %d", key, p)
			}
			return kr
		}, label))
	default:
		replayCalcExtra3(cw, c, label, k)
	}
}
