package main

import (
	"bufio"
	"encoding/json"
	"bytes"
	"context"
	"flag"
	"fmt"
	"math/rand"
	"os"
	"os/exec"
	"path/filepath"
	"sort"
	"strconv"
	"strings"
	"time"

	"github.com/evolbioinfo/gotree/io/newick"
	"github.com/evolbioinfo/gotree/tree"
)

// The command-line layer of the listed properties: the same operations as the library drivers, performed by the
// gotree binary built from /repo (one new process per call) on files, the results read back from its output and
// recorded as the same events, judged by the same trace specifications.

type cliEnv struct {
	bin string
	dir string
	n   int
}

func (c *cliEnv) file(name, content string) string {
	p := filepath.Join(c.dir, name)
	writeFile(p, content)
	return p
}

func (c *cliEnv) run(args ...string) (stdout string, rc int, hung bool) {
	ctx, cancel := context.WithTimeout(context.Background(), 15*time.Second)
	defer cancel()
	cmd := exec.CommandContext(ctx, c.bin, args...)
	cmd.Dir = c.dir
	var so, se bytes.Buffer
	cmd.Stdout, cmd.Stderr = &so, &se
	err := cmd.Run()
	c.n++
	if ctx.Err() != nil {
		return so.String(), -1, true
	}
	if cmd.ProcessState != nil {
		rc = cmd.ProcessState.ExitCode()
	} else if err != nil {
		rc = -1
	}
	return so.String(), rc, false
}

func parseNewickLines(text string) ([]*tree.Tree, error) {
	var ts []*tree.Tree
	for _, ln := range strings.Split(text, "\n") {
		ln = strings.TrimSpace(ln)
		if ln == "" {
			continue
		}
		t, err := newick.NewParser(strings.NewReader(ln)).Parse()
		if err != nil {
			return ts, err
		}
		if err := t.ReinitIndexes(); err != nil {
			return ts, err
		}
		ts = append(ts, t)
	}
	return ts, nil
}

func mustParse(text string) *tree.Tree {
	ts, err := parseNewickLines(text)
	if err != nil || len(ts) != 1 {
		fatal("harness input does not parse: %v: %s", err, text)
	}
	return ts[0]
}

// an edit performed by a command: reset event with the input tree, op event with the output tree
func (c *cliEnv) editEvent(tw *TraceWriter, label string, opt ProjOpt, input string, op string, args map[string]interface{}, cmdline []string, lookups []string) {
	pre := project(mustParse(input), opt)
	tw.emit(&Event{Ev: "reset", Case: label, Op: "Init", Obj: "a", Ok: true, Post: pre, Args: map[string]interface{}{"cli": strings.Join(cmdline, " ")}})
	in := c.file("in.nw", input+"\n")
	out, rc, hung := c.run(append(cmdline, "-i", in)...)
	ev := &Event{Ev: "op", Case: label, Op: op, Obj: "a", Args: args}
	switch {
	case hung:
		ev.Panic, ev.Err = true, "the command did not return"
	case rc != 0:
		ev.Ok, ev.Err = false, fmt.Sprintf("exit status %d", rc)
	default:
		ts, err := parseNewickLines(out)
		if err != nil || len(ts) != 1 {
			ev.Panic, ev.Err = true, fmt.Sprintf("output is not one Newick tree: %v", err)
			break
		}
		ev.Ok = true
		post := project(ts[0], opt)
		ev.Post = post
		if lookups != nil {
			ex, nodeok := []string{}, []string{}
			for _, nm := range lookups {
				if ok, err := ts[0].ExistsTip(nm); err == nil && ok {
					ex = append(ex, nm)
				}
				if n, err := ts[0].TipNode(nm); err == nil && n != nil {
					nodeok = append(nodeok, nm)
				}
			}
			ev.Res = map[string]interface{}{"asked": lookups, "exists": ex, "tipnode": nodeok}
		}
	}
	tw.emit(ev)
}

// the same command applied to every tree of a multi-tree input file: one reset + op pair per tree
func (c *cliEnv) editEventMulti(tw *TraceWriter, label string, inputs []string, op string, argsList []map[string]interface{}, cmdline []string) {
	in := c.file("in.nw", strings.Join(inputs, "\n")+"\n")
	out, rc, hung := c.run(append(cmdline, "-i", in)...)
	var outs []*tree.Tree
	var perr error
	if !hung && rc == 0 {
		outs, perr = parseNewickLines(out)
	}
	for i, input := range inputs {
		lab := fmt.Sprintf("%s", label)
		pre := project(mustParse(input), ProjOpt{})
		tw.emit(&Event{Ev: "reset", Case: lab, Op: "Init", Obj: "a", Ok: true, Post: pre, Args: map[string]interface{}{"cli": strings.Join(cmdline, " "), "tree": i}})
		ev := &Event{Ev: "op", Case: lab, Op: op, Obj: "a", Args: argsList[i]}
		switch {
		case hung:
			ev.Panic, ev.Err = true, "the command did not return"
		case rc != 0:
			ev.Ok, ev.Err = false, fmt.Sprintf("exit status %d", rc)
		case perr != nil || len(outs) != len(inputs):
			ev.Panic, ev.Err = true, fmt.Sprintf("output is not %d Newick trees: %v", len(inputs), perr)
		default:
			ev.Ok = true
			ev.Post = project(outs[i], ProjOpt{})
			all := pre.tipNames()
			ex, nodeok := []string{}, []string{}
			for _, nm := range all {
				if ok, err := outs[i].ExistsTip(nm); err == nil && ok {
					ex = append(ex, nm)
				}
				if n, err := outs[i].TipNode(nm); err == nil && n != nil {
					nodeok = append(nodeok, nm)
				}
			}
			ev.Res = map[string]interface{}{"asked": all, "exists": ex, "tipnode": nodeok}
		}
		tw.emit(ev)
	}
}

// an edit that takes a second tree, or delivers one: the event carries it as Post2 (graft, merge, subtree)
func (c *cliEnv) editEvent2(tw *TraceWriter, label string, input string, op string, args map[string]interface{}, cmdline []string,
	second *PTree, obj2 string, outIsSecond bool) {
	pre := project(mustParse(input), ProjOpt{})
	tw.emit(&Event{Ev: "reset", Case: label, Op: "Init", Obj: "a", Ok: true, Post: pre, Args: map[string]interface{}{"cli": strings.Join(cmdline, " ")}})
	out, rc, hung := c.run(cmdline...)
	ev := &Event{Ev: "op", Case: label, Op: op, Obj: "a", Args: args}
	switch {
	case hung:
		ev.Panic, ev.Err = true, "the command did not return"
	case rc != 0:
		ev.Ok, ev.Err = false, fmt.Sprintf("exit status %d", rc)
	default:
		ts, err := parseNewickLines(out)
		if err != nil || len(ts) != 1 {
			ev.Panic, ev.Err = true, fmt.Sprintf("output is not one Newick tree: %v", err)
			break
		}
		ev.Ok = true
		if outIsSecond {
			// the input is left as it was (it is a file), the output is the second object
			ev.Post = pre
			ev.Obj2, ev.Post2 = obj2, project(ts[0], ProjOpt{})
		} else {
			ev.Post = project(ts[0], ProjOpt{})
			ev.Obj2, ev.Post2 = obj2, second
		}
	}
	tw.emit(ev)
}

// C15 through the commands: graft, merge, repopulate, collapse single, subtree
func cliC15(c *cliEnv, r *rand.Rand, tw *TraceWriter, label string, maxT int) {
	gp := defaultGen()
	gp.MinTips, gp.MaxTips = 4, maxT
	gp.InnerNames = 0
	gp.Comments = 0
	fresh := func(rooted, minT, maxTips int, prefix string) *STree {
		g := gp
		g.Rooted, g.MinTips, g.MaxTips, g.Prefix = rooted, minT, maxTips, prefix
		return genSTree(r, &g)
	}
	switch r.Intn(5) {
	case 0: // graft -i ref -c graft -l tip
		s := genSTree(r, &gp)
		all := s.tipNames()
		tip := all[r.Intn(len(all))]
		g := fresh(2, 2, 5, "x")
		in := c.file("ref.nw", s.text()+"\n")
		gf := c.file("graft.nw", g.text()+"\n")
		c.editEvent2(tw, label, s.text(), "GraftTreeOnTip", map[string]interface{}{"tip": tip},
			[]string{"graft", "-i", in, "-c", gf, "-l", tip}, project(mustParse(g.text()), ProjOpt{}), "g", false)
	case 1: // merge -i a -c b : two rooted trees on disjoint tips
		gp.Rooted = 1
		s := genSTree(r, &gp)
		g := fresh(1, 2, 5, "x")
		in := c.file("ref.nw", s.text()+"\n")
		gf := c.file("cmp.nw", g.text()+"\n")
		c.editEvent2(tw, label, s.text(), "Merge", map[string]interface{}{},
			[]string{"merge", "-i", in, "-c", gf}, project(mustParse(g.text()), ProjOpt{}), "g", false)
	case 2: // repopulate -g groups
		s := genSTree(r, &gp)
		all := s.tipNames()
		ng := 1 + r.Intn(2)
		perm := r.Perm(len(all))
		groups := [][]string{}
		var sb strings.Builder
		k := 0
		for g := 0; g < ng; g++ {
			grp := []string{}
			for i, n := 0, 1+r.Intn(2); i < n; i++ {
				k++
				grp = append(grp, fmt.Sprintf("i%d", k))
			}
			pos := r.Intn(len(grp) + 1)
			grp = append(grp[:pos], append([]string{all[perm[g]]}, grp[pos:]...)...)
			groups = append(groups, grp)
			sb.WriteString(strings.Join(grp, ",") + "\n")
		}
		gfile := c.file("groups.txt", sb.String())
		c.editEvent(tw, label, ProjOpt{}, s.text(), "InsertIdenticalTips", map[string]interface{}{"groups": groups},
			[]string{"repopulate", "-g", gfile}, nil)
	case 3: // collapse single on a tree with chains of single-child nodes
		gp.PSingle = 0.3
		gp.SupMode = 0 // (a support that ends up on a tip branch cannot be written in Newick: not observable through files)
		s := genSTree(r, &gp)
		c.editEvent(tw, label, ProjOpt{}, s.text(), "RemoveSingleNodes", map[string]interface{}{}, []string{"collapse", "single"}, nil)
	default: // subtree -n <inner node name>
		gp.InnerNames = 0.8
		gp.SupMode = 0
		s := genSTree(r, &gp)
		p := project(mustParse(s.text()), ProjOpt{})
		var ids []int
		for _, id := range p.innerIds() {
			if p.N[id-1].Nm != "" && id != p.Root {
				ids = append(ids, id)
			}
		}
		if len(ids) == 0 {
			return
		}
		id := ids[r.Intn(len(ids))]
		in := c.file("in.nw", s.text()+"\n")
		c.editEvent2(tw, label, s.text(), "SubTree", map[string]interface{}{"node": id},
			[]string{"subtree", "-i", in, "-n", "^" + p.N[id-1].Nm + "$"}, nil, "b", true)
	}
}

// the value operations through the commands (brlen clear / scale, support clear, rename -m): the output must be the
// tree the operational model computes (conformance notes), and a tree (C03)
func cliValueOps(c *cliEnv, r *rand.Rand, tw *TraceWriter, label string, maxT int) {
	gp := defaultGen()
	gp.MinTips, gp.MaxTips = 4, maxT
	gp.InnerNames = 0.2
	gp.Comments = 0
	s := genSTree(r, &gp)
	bs := func(b bool) string {
		if b {
			return "true"
		}
		return "false"
	}
	in, ex := r.Intn(2) == 0, r.Intn(2) == 0
	switch r.Intn(4) {
	case 0:
		c.editEvent(tw, label, ProjOpt{Enum: true, Text: true}, s.text(), "ClearLengths", map[string]interface{}{"internal": in, "external": ex},
			[]string{"brlen", "clear", "--internal=" + bs(in), "--external=" + bs(ex)}, nil)
	case 1:
		num := []int{1, 2, 4}[r.Intn(3)] // factor num/2
		c.editEvent(tw, label, ProjOpt{Enum: true, Text: true}, s.text(), "ScaleLengths", map[string]interface{}{"num": num, "internal": in, "external": ex},
			[]string{"brlen", "scale", "-f", fmtUnits(int64(num) << 19), "--internal=" + bs(in), "--external=" + bs(ex)}, nil)
	case 2:
		c.editEvent(tw, label, ProjOpt{Enum: true, Text: true}, s.text(), "ClearSupports", map[string]interface{}{}, []string{"support", "clear"}, nil)
	default:
		all := s.tipNames()
		var from, to []string
		var sb strings.Builder
		for i, nm := range all {
			if r.Intn(2) == 0 {
				from = append(from, nm)
				to = append(to, fmt.Sprintf("r%d", i))
				sb.WriteString(nm + "\t" + fmt.Sprintf("r%d", i) + "\n")
			}
		}
		if len(from) == 0 {
			from, to = []string{all[0]}, []string{"r0"}
			sb.WriteString(all[0] + "\tr0\n")
		}
		mf := c.file("map.txt", sb.String())
		c.editEvent(tw, label, ProjOpt{Enum: true, Text: true}, s.text(), "Rename", map[string]interface{}{"from": from, "to": to}, []string{"rename", "-m", mf}, nil)
	}
}

func cliEdit(c *cliEnv, r *rand.Rand, tw *TraceWriter, prop, label string, maxT int) {
	if prop == "C15" {
		cliC15(c, r, tw, label, maxT)
		return
	}
	if prop == "C03" {
		cliValueOps(c, r, tw, label, maxT)
		return
	}
	gp := defaultGen()
	gp.MinTips, gp.MaxTips = 4, maxT
	gp.InnerNames = 0
	gp.Comments = 0
	if prop == "C06" && r.Intn(5) == 0 {
		gp.PSingle = 0.2 // files with chains of single-child nodes: (((A:1):1):1,B:1,...)
	}
	if prop == "C06" && r.Intn(5) == 0 {
		gp.PNegLen = 0.12 // negative branch lengths, as neighbour-joining writes them
	}
	s := genSTree(r, &gp)
	input := s.text()
	p := project(mustParse(input), ProjOpt{})
	all := p.tipNames()
	h := &hist{r: r, p: p}
	switch prop {
	case "C06":
		var names []string
		revert := r.Intn(3) == 0
		if r.Intn(2) == 0 && len(p.E) > 0 {
			names = p.sideOf(1 + r.Intn(len(p.E)))
		} else {
			names = h.randSubset(3)
		}
		removed := names
		if revert {
			removed = complement(all, names)
		}
		if len(all)-len(removed) < 3 || len(removed) == 0 {
			names, revert = []string{all[r.Intn(len(all))]}, false
		}
		names = sortedCopy(names)
		args := map[string]interface{}{"names": names, "revert": revert}
		cmdline := []string{"prune"}
		if revert {
			cmdline = append(cmdline, "-r")
		}
		switch r.Intn(4) {
		case 0: // names on the command line
			withAbsent := append([]string{}, names...)
			if r.Intn(4) == 0 {
				withAbsent = append(withAbsent, "zz_absent")
				args["names"] = sortedCopy(withAbsent)
			}
			c.editEvent(tw, label, ProjOpt{}, input, "RemoveTips", args, append(cmdline, withAbsent...), append(all, "zz_absent"))
		case 1: // tip file
			f := c.file("tips.txt", strings.Join(names, "\n")+"\n")
			c.editEvent(tw, label, ProjOpt{}, input, "RemoveTips", args, append(cmdline, "-f", f), append(all, "zz_absent"))
		case 2:
			// several reference trees in one file, each with its own extra tips, against one compared tree
			core := complement(all, names)
			comp := append(append([]string{}, core...), "only_in_comp1")
			cf := c.file("comp.nw", "("+strings.Join(comp, ",")+");\n")
			var inputs []string
			var argsList []map[string]interface{}
			for i := 0; i < 2+r.Intn(2); i++ {
				si := genSTreeOn(r, &gp, append(append([]string{}, core...), fmt.Sprintf("extra%d_a", i), fmt.Sprintf("extra%d_b", i)), r.Intn(2) == 0, 0, 0)
				inputs = append(inputs, si.text())
				argsList = append(argsList, map[string]interface{}{"names": []string{fmt.Sprintf("extra%d_a", i), fmt.Sprintf("extra%d_b", i)}, "revert": false})
			}
			if len(core) >= 3 {
				c.editEventMulti(tw, label, inputs, "RemoveTips", argsList, []string{"prune", "-c", cf})
			}
		default:
			// compared tree: the tips of the input tree that are NOT in the compared tree are removed (with -r: they are
			// the only ones kept); so the compared tree holds every other tip of the input tree, plus foreign ones
			inComp := complement(all, names)
			comp := append(append([]string{}, inComp...), "only_in_comp1", "only_in_comp2")
			f := c.file("comp.nw", "("+strings.Join(comp, ",")+");\n")
			c.editEvent(tw, label, ProjOpt{}, input, "RemoveTips", args, append(cmdline, "-c", f), append(all, "zz_absent"))
		}
	case "C07":
		switch r.Intn(4) {
		case 0:
			thr := h.lenThreshold()
			root, tips := r.Intn(2) == 0, r.Intn(4) == 0
			cmdline := []string{"collapse", "length", "-l", fmtUnits(thr)}
			if root {
				cmdline = append(cmdline, "--root")
			}
			if tips {
				cmdline = append(cmdline, "--tips")
			}
			c.editEvent(tw, label, ProjOpt{}, input, "CollapseShortBranches", map[string]interface{}{"thr": thr, "root": root, "tips": tips}, cmdline, nil)
		case 1:
			var cands []int64
			for _, e := range p.E {
				if e.Sup >= 0 {
					cands = append(cands, e.Sup)
				}
			}
			thr := int64(1 << 19)
			if len(cands) > 0 {
				thr = cands[r.Intn(len(cands))] + []int64{0, 1 << 12, -(1 << 12)}[r.Intn(3)]
				if thr < 0 {
					thr = 0
				}
			}
			root := r.Intn(2) == 0
			cmdline := []string{"collapse", "support", "-s", fmtUnits(thr)}
			if root {
				cmdline = append(cmdline, "--root")
			}
			c.editEvent(tw, label, ProjOpt{}, input, "CollapseLowSupport", map[string]interface{}{"thr": thr, "root": root}, cmdline, nil)
		case 2:
			n := len(all)
			a := 1 + r.Intn(maxi(1, n/2))
			b := a + r.Intn(maxi(1, n/2-a+2))
			root, tips := r.Intn(2) == 0, r.Intn(5) == 0
			cmdline := []string{"collapse", "depth", "-m", strconv.Itoa(a), "-M", strconv.Itoa(b)}
			if root {
				cmdline = append(cmdline, "--root")
			}
			if tips {
				cmdline = append(cmdline, "--tips")
			}
			c.editEvent(tw, label, ProjOpt{}, input, "CollapseTopoDepth", map[string]interface{}{"min": a, "max": b, "root": root, "tips": tips}, cmdline, nil)
		default:
			c.editEvent(tw, label, ProjOpt{}, input, "Resolve", nil, []string{"resolve", "--seed", "3"}, nil)
		}
	case "C05":
		switch r.Intn(4) {
		case 0:
			names := h.cladeish()
			strict, remove := r.Intn(2) == 0, r.Intn(4) == 0
			if remove && len(complement(all, names)) < 3 {
				remove = false
			}
			cmdline := []string{"reroot", "outgroup"}
			if strict {
				cmdline = append(cmdline, "--strict")
			}
			if remove {
				cmdline = append(cmdline, "-r")
			}
			if r.Intn(2) == 0 {
				f := c.file("og.txt", strings.Join(names, "\n")+"\n")
				cmdline = append(cmdline, "-l", f)
			} else {
				cmdline = append(cmdline, names...)
			}
			c.editEvent(tw, label, ProjOpt{}, input, "RerootOutGroup", map[string]interface{}{"names": names, "strict": strict, "remove": remove}, cmdline, nil)
		case 1:
			if !h.allLens() {
				return
			}
			c.editEvent(tw, label, ProjOpt{}, input, "RerootMidPoint", nil, []string{"reroot", "midpoint"}, nil)
		case 2:
			c.editEvent(tw, label, ProjOpt{}, input, "UnRoot", nil, []string{"unroot"}, nil)
		default:
			c.editEvent(tw, label, ProjOpt{}, input, "SortNeighborsByTips", nil, []string{"rotate", "sort"}, nil)
		}
	case "C17":
		gp.PMulti = 0
		gp.MaxTips = mini(maxT, 10)
		s = genSTree(r, &gp)
		input = s.text()
		pre := project(mustParse(input), ProjOpt{Text: true})
		tw.emit(&Event{Ev: "reset", Case: label, Op: "Init", Obj: "a", Ok: true, Post: pre, Args: map[string]interface{}{"cli": "nni"}})
		in := c.file("in.nw", input+"\n")
		out, rc, hung := c.run("nni", "-i", in)
		ev := &Event{Ev: "op", Case: label, Op: "NNIAll", Obj: "a"}
		if hung || rc != 0 {
			ev.Panic, ev.Err = true, fmt.Sprintf("rc=%d hung=%v", rc, hung)
		} else {
			ts, err := parseNewickLines(out)
			if err != nil {
				ev.Panic, ev.Err = true, err.Error()
			} else {
				ev.Ok = true
				ev.Post = pre // the command does not print the tree it ends with
				nb := []*PTree{}
				for _, t := range ts {
					nb = append(nb, project(t, ProjOpt{}))
				}
				ev.Res = map[string]interface{}{"nb": nb}
			}
		}
		tw.emit(ev)
	}
}

/* ------------------------------------------------------------------ calc family through the commands */

func treesFile(c *cliEnv, name string, ss []*STree) string {
	var sb strings.Builder
	for _, s := range ss {
		sb.WriteString(s.text() + "\n")
	}
	return c.file(name, sb.String())
}

func projTexts(ss []*STree, opt ProjOpt) []*PTree {
	out := []*PTree{}
	for _, s := range ss {
		out = append(out, project(mustParse(s.text()), opt))
	}
	return out
}

func fields(line string) []string { return strings.Split(strings.TrimSpace(line), "\t") }

func cliCalc(c *cliEnv, r *rand.Rand, cw *CalcWriter, prop, label string, maxT int) {
	gp := calcGen(maxT)
	gp.PZeroLen = 0.05
	switch prop {
	case "C08":
		sa, sb, rel := pairC08(r, &gp, maxT)
		tips := r.Intn(2) == 0
		// either file may hold the tree rooted on a branch (the two branches under the root are one bipartition)
		ta, tb := sa.text(), sb.text()
		if r.Intn(3) == 0 {
			ta = present(r, sa, 3).Newick()
		}
		if r.Intn(3) == 0 {
			tb = present(r, sb, 3).Newick()
		}
		ref := c.file("ref.nw", ta+"\n")
		cmp := c.file("cmp.nw", tb+"\n")
		base := []string{"compare", "trees", "-i", ref, "-c", cmp}
		if tips {
			base = append(base, "-l")
		}
		out1, rc1, h1 := c.run(base...)
		out2, rc2, h2 := c.run(append(append([]string{}, base...), "--binary")...)
		ev := &CEvent{Kind: "Compare", Prop: "C08", Case: label, Trees: []*PTree{project(mustParse(ta), ProjOpt{}), project(mustParse(tb), ProjOpt{})},
			Args: map[string]interface{}{"tips": tips, "identical": false, "rel": rel, "swap": false, "cli": true}}
		ev.Hang = h1 || h2
		if !ev.Hang && rc1 == 0 && rc2 == 0 {
			l1 := strings.Split(strings.TrimSpace(out1), "\n")
			l2 := strings.Split(strings.TrimSpace(out2), "\n")
			if len(l1) == 2 && len(l2) == 2 && len(fields(l1[1])) == 4 && len(fields(l2[1])) == 2 {
				f1, f2 := fields(l1[1]), fields(l2[1])
				id, _ := strconv.Atoi(f1[0])
				t1, _ := strconv.Atoi(f1[1])
				cm, _ := strconv.Atoi(f1[2])
				t2, _ := strconv.Atoi(f1[3])
				ev.Ok = true
				ev.Res = map[string]interface{}{"id": id, "tree1": t1, "tree2": t2, "common": cm, "same": f2[1] == "true", "err": false, "n": 1}
			} else {
				ev.Err = "unexpected output: " + trunc(out1) + " / " + trunc(out2)
			}
		} else {
			ev.Err = fmt.Sprintf("rc=%d/%d", rc1, rc2)
		}
		cw.emit(ev)
		// weighted Robinson-Foulds and branch score (all lengths present in these inputs)
		outw, rcw, _ := c.run(append(append([]string{}, base...), "--weighted")...)
		if ev.Ok && rcw == 0 {
			lw := strings.Split(strings.TrimSpace(outw), "\n")
			if len(lw) == 2 && len(fields(lw[1])) == 3 {
				fw := fields(lw[1])
				wrf, e1 := strconv.ParseFloat(fw[1], 64)
				kf, e2 := strconv.ParseFloat(fw[2], 64)
				evw := &CEvent{Kind: "CompareWeightedCLI", Prop: "C08", Case: label, Trees: ev.Trees, Args: ev.Args, Ok: e1 == nil && e2 == nil,
					Res: map[string]interface{}{"wrf": toUnits(wrf), "kfzero": kf == 0, "kfneg": kf < 0}}
				cw.emit(evw)
			}
		}
		// the RF distance
		out3, rc3, _ := c.run(append(append([]string{}, base...), "--rf")...)
		if ev.Ok && rc3 == 0 {
			rf, err := strconv.Atoi(strings.TrimSpace(out3))
			ev2 := &CEvent{Kind: "CompareRF", Prop: "C08", Case: label, Trees: ev.Trees, Args: ev.Args, Ok: err == nil, Res: map[string]interface{}{"rf": rf}}
			cw.emit(ev2)
		}
	case "C09":
		nt := 4 + r.Intn(maxi(1, maxT-3))
		names := tipNamesN("t", nt)
		n := 1 + r.Intn(7)
		coll := collection(r, &gp, names, n, false)
		cut := dyadicCutoffs[r.Intn(len(dyadicCutoffs))]
		in := treesFile(c, "coll.nw", coll)
		out, rc, hung := c.run("compute", "consensus", "-i", in, "-f", strconv.FormatFloat(float64(cut[0])/float64(cut[1]), 'f', -1, 64))
		ev := &CEvent{Kind: "Consensus", Prop: "C09", Case: label, Trees: projTexts(coll, ProjOpt{}),
			Args: map[string]interface{}{"num": cut[0], "den": cut[1], "rooted_inputs": false, "cli": true}, Hang: hung}
		if !hung && rc == 0 {
			ts, err := parseNewickLines(out)
			if err == nil && len(ts) == 1 {
				ev.Ok = true
				ev.Out = project(ts[0], ProjOpt{})
				l4, s4 := ev.Out.e4Edges()
				ev.Res = map[string]interface{}{"len4": l4, "sup4": s4}
			} else {
				ev.Err = fmt.Sprintf("output: %v", err)
			}
		} else {
			ev.Err = fmt.Sprintf("rc=%d", rc)
		}
		cw.emit(ev)
	case "C10":
		nt := 4 + r.Intn(maxi(1, maxT-3))
		names := tipNamesN("t", nt)
		n := 1 + r.Intn(6)
		coll := collection(r, &gp, names, n+1, false)
		ref := treesFile(c, "ref.nw", coll[:1])
		boot := treesFile(c, "boot.nw", coll[1:])
		for _, m := range [][2]string{{"FBP", "classical"}, {"TBE", "booster"}} {
			threads := []string{"1", "3"}[r.Intn(2)]
			out, rc, hung := c.run("compute", "support", m[1], "-i", ref, "-b", boot, "-l", filepath.Join(c.dir, "log.txt"), "-t", threads)
			ev := &CEvent{Kind: m[0], Prop: "C10", Case: label, Trees: projTexts(coll, ProjOpt{}),
				Args: map[string]interface{}{"method": m[0], "ref_rooted": false, "mismatch_at": 0, "cli": true, "threads": threads}, Hang: hung}
			if !hung && rc == 0 {
				ts, err := parseNewickLines(out)
				if err == nil && len(ts) == 1 {
					ev.Ok = true
					ev.Out = project(ts[0], ProjOpt{})
					_, s4 := ev.Out.e4Edges()
					ev.Res = map[string]interface{}{"sup4": s4}
				} else {
					ev.Err = fmt.Sprintf("output: %v", err)
				}
			} else {
				ev.Err = fmt.Sprintf("rc=%d", rc)
			}
			cw.emit(ev)
		}
	case "C14":
		if r.Intn(3) == 0 {
			gp.PNegLen = 0.15
		}
		if r.Intn(4) == 0 {
			// matrix --avg over a collection on the same taxa
			nt := 4 + r.Intn(maxi(1, maxT-4))
			names := tipNamesN("t", nt)
			k := 1 + r.Intn(4)
			var ss []*STree
			for i := 0; i < k; i++ {
				ss = append(ss, genSTreeOn(r, &gp, names, r.Intn(2) == 0, 0, 1))
			}
			in := treesFile(c, "coll.nw", ss)
			metric := []string{"brlen", "boot", "none"}[r.Intn(3)]
			out, rc, hung := c.run("matrix", "-i", in, "-m", metric, "--avg")
			ev := &CEvent{Kind: "AvgMatrix", Prop: "C14", Case: label, Trees: projTexts(ss, ProjOpt{Rank: true}),
				Args: map[string]interface{}{"metric": metric, "cli": true}, Hang: hung}
			if !hung && rc == 0 {
				lines := strings.Split(strings.TrimSpace(out), "\n")
				names := []string{}
				rows := [][]int64{}
				for _, ln := range lines[1:] {
					f := fields(ln)
					names = append(names, f[0])
					row := []int64{}
					for _, x := range f[1:] {
						v, _ := strconv.ParseFloat(x, 64)
						row = append(row, e4(v))
					}
					rows = append(rows, row)
				}
				ev.Ok = true
				ev.Res = map[string]interface{}{"names": names, "m": rows}
			} else {
				ev.Err = fmt.Sprintf("rc=%d", rc)
			}
			cw.emit(ev)
			return
		}
		s := genSTree(r, &gp)
		in := treesFile(c, "t.nw", []*STree{s})
		if r.Intn(2) == 0 {
			metric := []string{"brlen", "boot", "none"}[r.Intn(3)]
			out, rc, hung := c.run("matrix", "-i", in, "-m", metric)
			ev := &CEvent{Kind: "DistMatrix", Prop: "C14", Case: label, Trees: projTexts([]*STree{s}, ProjOpt{Rank: true}),
				Args: map[string]interface{}{"metric": metric, "cli": true}, Hang: hung}
			if !hung && rc == 0 {
				lines := strings.Split(strings.TrimSpace(out), "\n")
				names := []string{}
				rows := [][]int64{}
				for _, ln := range lines[1:] {
					f := fields(ln)
					names = append(names, f[0])
					row := []int64{}
					for _, x := range f[1:] {
						v, _ := strconv.ParseFloat(x, 64)
						row = append(row, toUnitsSigned(v))
					}
					rows = append(rows, row)
				}
				ev.Ok = true
				ev.Res = map[string]interface{}{"names": names, "m": rows}
			} else {
				ev.Err = fmt.Sprintf("rc=%d", rc)
			}
			cw.emit(ev)
		} else {
			p := project(mustParse(s.text()), ProjOpt{Rank: true})
			var cands []int64
			for _, e := range p.E {
				if e.Len > 0 {
					cands = append(cands, e.Len)
				}
			}
			thr := int64(1 << 18)
			if len(cands) > 0 {
				thr = cands[r.Intn(len(cands))] + []int64{0, 1 << 12, -(1 << 12), 0}[r.Intn(4)]
			}
			out, rc, hung := c.run("brlen", "cut", "-i", in, "-l", fmtUnits(thr))
			ev := &CEvent{Kind: "TipBags", Prop: "C14", Case: label, Trees: []*PTree{p}, Args: map[string]interface{}{"thr": thr, "cli": true}, Hang: hung}
			if !hung && rc == 0 {
				bags := [][]string{}
				sc := bufio.NewScanner(strings.NewReader(out))
				for sc.Scan() {
					f := fields(sc.Text())
					if len(f) == 3 {
						bags = append(bags, strings.Split(f[2], ","))
					}
				}
				ev.Ok = true
				ev.Res = map[string]interface{}{"bags": bags}
			} else {
				ev.Err = fmt.Sprintf("rc=%d", rc)
			}
			cw.emit(ev)
		}
	case "C12":
		gp.MinTips = 3
		gp.PMulti = 0.45
		if r.Intn(2) == 0 {
			// sequences: gotree asr on a FASTA file; for unambiguous alignments gotree acr on every column as well
			s := genSTree(r, &gp)
			names := s.tipNames()
			m := 1 + r.Intn(3)
			ambiguous := r.Intn(2) == 0
			codes := "ACGT"
			if ambiguous {
				codes = "ACGTACGTRYSWKMBDHVN"
			}
			seqs := map[string]string{}
			var fa strings.Builder
			for _, nm := range names {
				b := make([]byte, m)
				for j := range b {
					b[j] = codes[r.Intn(len(codes))]
				}
				seqs[nm] = string(b)
				fa.WriteString(">" + nm + "\n" + string(b) + "\n")
			}
			in := treesFile(c, "t.nw", []*STree{s})
			af := c.file("aln.fa", fa.String())
			al := parsAlgos[r.Intn(3)]
			logf := filepath.Join(c.dir, "asr.log")
			out, rc, hung := c.run("asr", "-i", in, "-a", af, "--algo", strings.ToLower(al.name), "--log", logf)
			p := project(mustParse(s.text()), ProjOpt{})
			sorted := p.tipNames()
			sets := [][][]string{}
			seqlist := [][]string{}
			for _, nm := range sorted {
				row := [][]string{}
				for j := 0; j < m; j++ {
					row = append(row, splitChars(iupac[seqs[nm][j]]))
				}
				sets = append(sets, row)
				seqlist = append(seqlist, []string{nm, seqs[nm]})
			}
			ev := &CEvent{Kind: "ParsimonySeq", Prop: "C12", Case: label, Trees: []*PTree{p},
				Args: map[string]interface{}{"algo": al.name, "names": sorted, "seqs": seqlist, "sets": sets, "nsites": m, "ambiguous": ambiguous, "cli": true}, Hang: hung}
			if !hung && rc == 0 {
				ts, err := parseNewickLines(out)
				lb, _ := os.ReadFile(logf)
				lf := strings.Fields(string(lb))
				if err == nil && len(ts) == 1 && len(lf) >= 1+m {
					po := project(ts[0], ProjOpt{})
					st := [][][]string{}
					for _, n := range po.nodes {
						cm := n.Comments()
						if len(cm) == 0 {
							st = append(st, [][]string{})
						} else {
							st = append(st, parseAncSeq(cm[len(cm)-1]))
						}
					}
					steps := []int{}
					for j := 0; j < m; j++ {
						v, _ := strconv.Atoi(lf[1+j])
						steps = append(steps, v)
					}
					single := []map[string]interface{}{}
					okAll := true
					if !ambiguous {
						for j := 0; j < m && okAll; j++ {
							var sb strings.Builder
							for _, nm := range sorted {
								sb.WriteString(nm + "\t" + string(seqs[nm][j]) + "\n")
							}
							sf := c.file("col.txt", sb.String())
							stf := filepath.Join(c.dir, "colsteps.txt")
							o2, rc2, _ := c.run("acr", "-i", in, "--states", sf, "--algo", strings.ToLower(al.name), "--out-steps", stf)
							t2, e2 := parseNewickLines(o2)
							sb2, _ := os.ReadFile(stf)
							f2 := strings.Fields(string(sb2))
							if rc2 != 0 || e2 != nil || len(t2) != 1 || len(f2) != 2 {
								okAll = false
								break
							}
							ns, _ := strconv.Atoi(f2[1])
							single = append(single, map[string]interface{}{"steps": ns, "states": acrStates(project(t2[0], ProjOpt{}))})
						}
					}
					if okAll {
						ev.Ok = true
						ev.Res = map[string]interface{}{"steps": steps, "states": st, "single": single}
					} else {
						ev.Err = "acr on a column failed"
					}
				} else {
					ev.Err = fmt.Sprintf("output: %v %q", err, string(lb))
				}
			} else {
				ev.Err = fmt.Sprintf("rc=%d", rc)
			}
			cw.emit(ev)
			return
		}
		s := genSTree(r, &gp)
		names := s.tipNames()
		k := 2 + r.Intn(3)
		states := []string{"A", "C", "G", "T"}[:k]
		var sb strings.Builder
		tipstates := map[string]string{}
		for _, nm := range names {
			tipstates[nm] = states[r.Intn(k)]
			sb.WriteString(nm + "\t" + tipstates[nm] + "\n")
		}
		in := treesFile(c, "t.nw", []*STree{s})
		sf := c.file("states.txt", sb.String())
		al := parsAlgos[r.Intn(3)]
		stepsf := filepath.Join(c.dir, "steps.txt")
		out, rc, hung := c.run("acr", "-i", in, "--states", sf, "--algo", strings.ToLower(al.name), "--out-steps", stepsf)
		p := project(mustParse(s.text()), ProjOpt{})
		alpha := map[string]bool{}
		tips := [][]string{}
		for _, nm := range p.tipNames() {
			tips = append(tips, []string{nm, tipstates[nm]})
			alpha[tipstates[nm]] = true
		}
		alphabet := []string{}
		for a := range alpha {
			alphabet = append(alphabet, a)
		}
		sort.Strings(alphabet)
		ev := &CEvent{Kind: "Parsimony", Prop: "C12", Case: label, Trees: []*PTree{p},
			Args: map[string]interface{}{"algo": al.name, "alphabet": alphabet, "tips": tips, "cli": true}, Hang: hung}
		if !hung && rc == 0 {
			ts, err := parseNewickLines(out)
			sb, _ := os.ReadFile(stepsf)
			f := strings.Fields(string(sb))
			if err == nil && len(ts) == 1 && len(f) == 2 {
				steps, _ := strconv.Atoi(f[1])
				// the output tree has the shape and order of the input: same projection ids
				po := project(ts[0], ProjOpt{})
				ev.Ok = true
				ev.Res = map[string]interface{}{"steps": steps, "states": acrStates(po)}
			} else {
				ev.Err = fmt.Sprintf("output: %v %q", err, string(sb))
			}
		} else {
			ev.Err = fmt.Sprintf("rc=%d", rc)
		}
		cw.emit(ev)
	case "C11":
		// the threaded commands on files: an erroneous (unparsable) or other-taxa tree at any position must surface as
		// an error, never as a hang; without such a tree the records do not depend on the number of threads
		nt := 5 + r.Intn(maxi(1, maxT-4))
		names := tipNamesN("t", nt)
		n := 2 + r.Intn(8)
		coll := collection(r, &gp, names, n+1, false)
		ref := treesFile(c, "ref.nw", coll[:1])
		errAt := 0
		mismatch := false
		var sb strings.Builder
		if r.Intn(2) == 0 {
			errAt = 1 + r.Intn(n)
			mismatch = r.Intn(2) == 0
		}
		for i, s := range coll[1:] {
			txt := s.text()
			if i+1 == errAt {
				if mismatch {
					txt = strings.Replace(txt, names[0]+":", "zz_other:", 1)
				} else {
					txt = strings.Replace(txt, ")", "", 1) // unbalanced parentheses
				}
			}
			sb.WriteString(txt + "\n")
		}
		boot := c.file("boot.nw", sb.String())
		pipelines := [][]string{{"compare", "trees", "-i", ref, "-c", boot}, {"compare", "trees", "--weighted", "-i", ref, "-c", boot},
			{"compare", "trees", "--binary", "-l", "-i", ref, "-c", boot},
			{"compute", "support", "classical", "-i", ref, "-b", boot, "-l", filepath.Join(c.dir, "l1")},
			{"compute", "support", "booster", "-i", ref, "-b", boot, "-l", filepath.Join(c.dir, "l2")}}
		pl := pipelines[r.Intn(len(pipelines))]
		threads := []string{"2", "4", "16"}[r.Intn(3)]
		out1, rc1, h1 := c.run(append(append([]string{}, pl...), "-t", "1")...)
		outN, rcN, hN := c.run(append(append([]string{}, pl...), "-t", threads)...)
		same := sortedLines(out1) == sortedLines(outN)
		th, _ := strconv.Atoi(threads)
		ev := map[string]interface{}{"ev": "case", "kind": "PoolRun", "case": label, "cls": "cli-" + pl[0] + "-" + pl[len(pl)-5+0][0:1], "pipeline": "cli " + strings.Join(pl[:3], " "),
			"threads": th, "n": n, "errat": errAt, "mismatch": mismatch, "forced": false, "realizable": true,
			"terminated": !hN, "seqterminated": !h1, "same": same || errAt > 0, "nrecords": len(strings.Split(outN, "\n")),
			"errsurfaced": rcN != 0, "seqerr": rc1 != 0, "err": fmt.Sprintf("rc=%d", rcN), "gates": 0}
		ev["cls"] = "cli-" + strings.Join(pl[:3], "-")
		b, _ := jsonMarshal(ev)
		cw.w.Write(b)
		cw.w.WriteByte('\n')
		cw.n++
	case "C16":
		if r.Intn(8) == 0 {
			rooted := r.Intn(2) == 0
			n := 3 + r.Intn(3)
			args := []string{"generate", "topologies", "-l", strconv.Itoa(n)}
			if rooted {
				args = append(args, "-r")
			}
			evargs := map[string]interface{}{"gen": "topologies", "n": n, "rooted": rooted, "cli": true}
			if r.Intn(2) == 0 {
				// tip names taken from an input tree
				names := []string{}
				for i := 0; i < n; i++ {
					names = append(names, fmt.Sprintf("sp_%c%d", 'a'+i, i))
				}
				tf := c.file("names.nw", "("+strings.Join(names, ",")+");\n")
				args = []string{"generate", "topologies", "-i", tf}
				if rooted {
					args = append(args, "-r")
				}
				evargs["names"] = names
			}
			out, rc, hung := c.run(args...)
			ev := &CEvent{Kind: "Topologies", Prop: "C16", Case: label, Args: evargs, Hang: hung}
			if !hung && rc == 0 {
				ts, err := parseNewickLines(out)
				if err == nil {
					ev.Ok = true
					ev.Trees = projAll(ts, ProjOpt{})
				} else {
					ev.Err = err.Error()
				}
			} else {
				ev.Err = fmt.Sprintf("rc=%d", rc)
			}
			cw.emit(ev)
			return
		}
		gen := []string{"uniform", "yule", "caterpillar", "balanced", "star"}[r.Intn(5)]
		rooted := r.Intn(2) == 0
		n := 3 + r.Intn(maxi(1, maxT))
		args := []string{"generate", gen + "tree"}
		if gen == "balanced" {
			n = 1 + r.Intn(4)
			args = append(args, "-d", strconv.Itoa(n))
		} else {
			args = append(args, "-l", strconv.Itoa(n))
		}
		if rooted && gen != "star" {
			args = append(args, "-r")
		}
		if gen == "star" {
			rooted = false
		}
		args = append(args, "--seed", strconv.Itoa(r.Intn(100000)))
		out, rc, hung := c.run(args...)
		ntips := n
		if gen == "balanced" {
			ntips = 1 << uint(n)
		}
		kind := "Generator"
		if ntips < 3 {
			kind = "GeneratorTwoTips"
		}
		ev := &CEvent{Kind: kind, Prop: "C16", Case: label, Args: map[string]interface{}{"gen": gen, "n": n, "rooted": rooted, "cli": true}, Hang: hung}
		if !hung && rc == 0 {
			ts, err := parseNewickLines(out)
			if err == nil && len(ts) == 1 {
				ev.Ok = true
				ev.Out = project(ts[0], ProjOpt{Idx: true, Enum: true})
				l4, _ := ev.Out.e4Edges()
				ev.Res = map[string]interface{}{"len4": l4, "ntips": ntips}
			} else {
				ev.Err = fmt.Sprintf("output: %v", err)
			}
		} else {
			ev.Err = fmt.Sprintf("rc=%d", rc)
		}
		cw.emit(ev)
	}
}

func init() {
	extraDrivers["cli"] = func(fs *flag.FlagSet, args []string) {
		prop := fs.String("prop", "C06", "")
		bin := fs.String("gotree", "", "")
		seed := fs.Int64("seed", 1, "")
		from := fs.Int("from", 0, "")
		to := fs.Int("to", 10, "")
		maxT := fs.Int("maxtips", 10, "")
		out := fs.String("out", "trace.ndjson", "")
		fs.Parse(args)
		dir, err := os.MkdirTemp(filepath.Dir(*out), "cli")
		if err != nil {
			fatal("%v", err)
		}
		defer os.RemoveAll(dir)
		c := &cliEnv{bin: *bin, dir: dir}
		edit := map[string]bool{"C05": true, "C06": true, "C07": true, "C17": true, "C15": true, "C03": true}[*prop]
		var tw *TraceWriter
		var cw *CalcWriter
		if edit {
			tw, err = newTraceWriter(*out)
			if err != nil {
				fatal("%v", err)
			}
		} else {
			cw = newCalcWriter(*out)
		}
		for k := *from; k < *to; k++ {
			s := *seed*1000003 + int64(k) + 77
			r := rand.New(rand.NewSource(s))
			label := fmt.Sprintf("%s-s%d-c%d", *prop, *seed, k)
			if edit {
				cliEdit(c, r, tw, *prop, label, *maxT)
			} else {
				cliCalc(c, r, cw, *prop, label, *maxT)
			}
		}
		n := 0
		if edit {
			tw.close()
			n = tw.n
		} else {
			cw.close()
			n = cw.n
		}
		summary(map[string]interface{}{"events": n, "commands_run": c.n})
	}
}

func jsonMarshal(v interface{}) ([]byte, error) { return json.Marshal(v) }
