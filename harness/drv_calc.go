package main

import (
	"flag"
	"fmt"
	"math/rand"
	"strings"
	"sync"
	"time"

	"github.com/evolbioinfo/gotree/support"
	"github.com/evolbioinfo/gotree/tree"
)

// Seeded random drivers for the computing entry points (direction B of C08, C09, C10, C14).

const calcTimeout = 60 * time.Second

func init() {
	extraDrivers["calc"] = func(fs *flag.FlagSet, args []string) {
		prop := fs.String("prop", "C14", "")
		seed := fs.Int64("seed", 1, "")
		from := fs.Int("from", 0, "")
		to := fs.Int("to", 10, "")
		out := fs.String("out", "trace.ndjson", "")
		maxT := fs.Int("maxtips", 10, "")
		fs.Parse(args)
		cw := newCalcWriter(*out)
		restore := silenceStderr()
		for k := *from; k < *to; k++ {
			s := *seed*1000003 + int64(k)
			r := rand.New(rand.NewSource(s))
			rand.Seed(s)
			label := fmt.Sprintf("%s-s%d-k%d", *prop, *seed, k)
			switch *prop {
			case "C14":
				caseC14(r, cw, label, *maxT)
			case "C08":
				caseC08(r, cw, label, *maxT)
			case "C09":
				caseC09(r, cw, label, *maxT)
			case "C10":
				caseC10(r, cw, label, *maxT)
			case "C12":
				caseC12(r, cw, label, *maxT)
			case "C04":
				caseC04(r, cw, label, *maxT)
			case "C16":
				caseC16(r, cw, label, *maxT)
			default:
				fatal("no calc driver for %s", *prop)
			}
		}
		restore()
		cw.close()
		summary(map[string]interface{}{"events": cw.n, "cases": *to - *from, "kinds": cw.k})
	}
}

// number of tips of a shared-taxa case: now and then more than 64 (and more than 128), so that the bitsets of the
// branches span several machine words
func pickTips(r *rand.Rand, maxT int) int { return pickTipsIn(r, maxT, 48) }

func pickTipsIn(r *rand.Rand, maxT int, oneIn int) int {
	switch r.Intn(oneIn) {
	case 0:
		return 65 + r.Intn(12)
	case 1:
		return 129 + r.Intn(6)
	}
	return 3 + r.Intn(maxi(1, maxT-2))
}

func calcGen(maxT int) GenParams {
	gp := defaultGen()
	gp.MinTips, gp.MaxTips = 4, maxT
	gp.InnerNames = 0
	return gp
}

/* ------------------------------------------------------------------ C14 */

var metricNames = map[int]string{tree.DISTANCE_METRIC_BRLEN: "brlen", tree.DISTANCE_METRIC_BOOTS: "boot", tree.DISTANCE_METRIC_NONE: "none"}

func matrixRes(m [][]float64, tips []*tree.Node, conv func(float64) int64) map[string]interface{} {
	names := []string{}
	for _, t := range tips {
		names = append(names, t.Name())
	}
	rows := [][]int64{}
	for _, row := range m {
		rows = append(rows, i64s(row, conv))
	}
	return map[string]interface{}{"names": names, "m": rows}
}

func caseC14(r *rand.Rand, cw *CalcWriter, label string, maxT int) {
	gp := calcGen(maxT)
	if r.Intn(3) == 0 {
		gp.PNegLen = 0.15
	}
	opt := ProjOpt{Rank: true}
	metrics := []int{tree.DISTANCE_METRIC_BRLEN, tree.DISTANCE_METRIC_BOOTS, tree.DISTANCE_METRIC_NONE}
	switch r.Intn(3) {
	case 0: // one tree, one metric
		s := genSTree(r, &gp)
		t, err := build(s)
		if err != nil {
			fatal("build: %v", err)
		}
		metric := metrics[r.Intn(3)]
		ev := &CEvent{Kind: "DistMatrix", Prop: "C14", Case: label, Trees: []*PTree{project(t, opt)},
			Args: map[string]interface{}{"metric": metricNames[metric]}}
		ev.guard(calcTimeout, func() error {
			m, tips := t.ToDistanceMatrix(metric)
			ev.Res = matrixRes(m, tips, toUnitsSigned)
			return nil
		})
		cw.emit(ev)
	case 1: // average over a collection on the same taxa
		nt := 4 + r.Intn(maxi(1, maxT-5))
		names := tipNamesN("t", nt)
		k := 1 + r.Intn(4)
		var ts []*tree.Tree
		for i := 0; i < k; i++ {
			s := genSTreeOn(r, &gp, names, r.Intn(2) == 0, 0, 1)
			ts = append(ts, present(r, s, r.Intn(3)))
		}
		metric := metrics[r.Intn(3)]
		ev := &CEvent{Kind: "AvgMatrix", Prop: "C14", Case: label, Trees: projAll(ts, opt),
			Args: map[string]interface{}{"metric": metricNames[metric]}}
		ev.guard(calcTimeout, func() error {
			m, tips, err := tree.AvgDistanceMatrix(metric, feed(ts))
			if err != nil {
				return err
			}
			ev.Res = matrixRes(m, tips, e4)
			return nil
		})
		cw.emit(ev)
	default: // clusters by length threshold
		s := genSTree(r, &gp)
		if r.Intn(10) == 0 {
			// a tree hanging from a named tip (the root has one neighbour: gotree counts it among the tips), as UnRoot
			// of a two-tip tree or a tree written as ((C,D):2)A; gives
			s = &STree{Name: "rt", Len: NILU, Sup: NILU, Pv: NILU, Ch: []*STree{s}}
			s.Ch[0].Len = genLen(r, &gp, 0)
			s.Ch[0].Sup = NILU
		}
		t, err := build(s)
		if err != nil {
			fatal("build: %v", err)
		}
		p := project(t, opt)
		// thresholds on, just below and just above occurring lengths; strictly positive (absent = 0 is then
		// unambiguously "shorter")
		var cands []int64
		for _, e := range p.E {
			if e.Len > 0 {
				cands = append(cands, e.Len)
			}
		}
		thr := int64(1 << 18)
		if len(cands) > 0 {
			thr = cands[r.Intn(len(cands))]
			switch r.Intn(4) {
			case 0:
				thr += 1 << 12
			case 1:
				thr -= 1 << 12
			}
		}
		if r.Intn(12) == 0 {
			thr = 1 << 29 // above everything
		}
		ev := &CEvent{Kind: "TipBags", Prop: "C14", Case: label, Trees: []*PTree{p}, Args: map[string]interface{}{"thr": thr}}
		ev.guard(calcTimeout, func() error {
			bags, err := t.CutEdgesMaxLength(fromUnits(thr))
			if err != nil {
				return err
			}
			out := [][]string{}
			for _, b := range bags {
				g := []string{}
				for _, n := range b.Tips() {
					g = append(g, n.Name())
				}
				out = append(out, g)
			}
			ev.Res = map[string]interface{}{"bags": out}
			return nil
		})
		cw.emit(ev)
	}
}

/* ------------------------------------------------------------------ C08 */

// a pair of unrooted trees on the same taxa, related in one of several ways
func pairC08(r *rand.Rand, gp *GenParams, maxT int) (a, b *STree, rel string) {
	nt := pickTipsIn(r, maxT, 160) // a case is a dozen events on the same pair: large pairs are rarer here
	names := tipNamesN("t", nt)
	a = genSTreeOn(r, gp, names, false, 0, 0)
	switch r.Intn(7) {
	case 0:
		b = genSTreeOn(r, gp, names, false, 0, 0)
		rel = "random"
	case 1:
		b = a.clone()
		b.contract(r, 0.4)
		rel = "contraction"
	case 2:
		b = a.clone()
		a.contract(r, 0.4)
		rel = "refinement"
	case 3:
		b = a.clone()
		n := 1 + r.Intn(2)
		for i := 0; i < n; i++ {
			b.nni(r)
		}
		rel = "nni"
	case 4:
		b = a.clone()
		b.shuffleKids(r)
		rel = "same"
	case 5:
		b = a.clone()
		b.relen(r, gp, true)
		rel = "same-topology-other-lengths"
	default:
		b = a.clone()
		b.nni(r)
		b.contract(r, 0.25)
		a.contract(r, 0.15)
		rel = "mixed"
	}
	return
}

func caseC08(r *rand.Rand, cw *CalcWriter, label string, maxT int) {
	gp := calcGen(maxT)
	gp.PZeroLen = 0.05
	if r.Intn(4) == 0 {
		gp.PNegLen = 0.1
	}
	sa, sb, rel := pairC08(r, &gp, maxT)
	tips := r.Intn(2) == 0
	identical := r.Intn(4) == 0
	mismatch := r.Intn(10) == 0
	if mismatch {
		// one differing taxon (same count) or one more taxon
		leaf := sb
		for len(leaf.Ch) > 0 {
			leaf = leaf.Ch[r.Intn(len(leaf.Ch))]
		}
		leaf.Name = "zz_other"
		rel = "mismatch"
	}
	for swap := 0; swap < 2; swap++ {
		x, y := sa, sb
		if swap == 1 {
			x, y = sb, sa
		}
		// presentations: each tree under another rooting / child order (0-2: an inner node as root, the tree stays unrooted;
		// 3: rooted on a branch -- the two branches under the root are one bipartition)
		ref := present(r, x, r.Intn(4))
		cmp := present(r, y, r.Intn(4))
		hist := ""
		if !mismatch && r.Intn(3) == 0 {
			hist = "ref:" + staleEdits(r, ref)
			if r.Intn(2) == 0 {
				hist += " cmp:" + staleEdits(r, cmp)
			}
		}
		pr, pc := project(ref, ProjOpt{}), project(cmp, ProjOpt{})
		args := map[string]interface{}{"tips": tips, "identical": identical, "rel": rel, "swap": swap == 1, "history": hist}
		ev := &CEvent{Kind: "Compare", Prop: "C08", Case: label, Trees: []*PTree{pr, pc}, Args: args}
		ev.guard(calcTimeout, func() error {
			ch, err := tree.Compare(ref, feed([]*tree.Tree{cmp}), tips, identical, 1)
			if err != nil {
				return err
			}
			n := 0
			for st := range ch {
				n++
				ev.Res = map[string]interface{}{"id": st.Id, "tree1": st.Tree1, "tree2": st.Tree2, "common": st.Common,
					"same": st.Sametree, "err": st.Err != nil, "n": n}
			}
			return nil
		})
		cw.emit(ev)
		if mismatch {
			continue
		}
		// the pairwise variant (linear search); its documented precondition is that both trees are indexed
		refc := present(r, x, r.Intn(3))
		cmpc := present(r, y, r.Intn(3))
		evc := &CEvent{Kind: "CommonEdges", Prop: "C08", Case: label, Trees: []*PTree{project(refc, ProjOpt{}), project(cmpc, ProjOpt{})},
			Args: map[string]interface{}{"tips": tips, "rel": rel, "swap": swap == 1}}
		evc.guard(calcTimeout, func() error {
			t1, cm, err := refc.CommonEdges(cmpc, tips)
			if err != nil {
				return err
			}
			found := 0
			edges2 := cmpc.Edges()
			for _, e := range refc.Edges() {
				if f, err := e.FindEdge(edges2); err == nil && f != nil {
					found++
				}
			}
			evc.Res = map[string]interface{}{"tree1": t1, "common": cm, "found_all": found}
			return nil
		})
		cw.emit(evc)
		// weighted
		ref2 := present(r, x, r.Intn(4))
		cmp2 := present(r, y, r.Intn(4))
		if r.Intn(3) == 0 {
			staleEdits(r, ref2)
			staleEdits(r, cmp2)
		}
		ev2 := &CEvent{Kind: "CompareWeighted", Prop: "C08", Case: label, Trees: []*PTree{project(ref2, ProjOpt{}), project(cmp2, ProjOpt{})},
			Args: map[string]interface{}{"tips": tips, "identical": false, "rel": rel, "swap": swap == 1}}
		ev2.guard(calcTimeout, func() error {
			ch, err := tree.CompareWeighted(ref2, feed([]*tree.Tree{cmp2}), tips, false, 1)
			if err != nil {
				return err
			}
			n := 0
			for st := range ch {
				n++
				ev2.Res = map[string]interface{}{"id": st.Id, "ref": i64s(st.Tree1, toUnitsSigned), "comp": i64s(st.Tree2, toUnitsSigned),
					"common": i64s(st.Common, toUnitsSigned), "same": st.Sametree, "err": st.Err != nil, "n": n}
			}
			return nil
		})
		cw.emit(ev2)
	}
	if mismatch {
		return
	}
	// several compared trees in one call, the records kept until the stream is closed and judged afterwards, one event
	// per compared tree (what a caller that sorts or tabulates the records does): a record must not change once delivered
	k := 2 + r.Intn(3)
	cpus := 1 + r.Intn(2)
	ref := present(r, sa, r.Intn(4))
	pref := project(ref, ProjOpt{})
	var cmps []*tree.Tree
	var pcs []*PTree
	for i := 0; i < k; i++ {
		y := sb.clone()
		for j := r.Intn(3); j > 0; j-- {
			y.nni(r)
		}
		if r.Intn(3) == 0 {
			y.contract(r, 0.3)
		}
		c := present(r, y, r.Intn(4))
		cmps = append(cmps, c)
		pcs = append(pcs, project(c, ProjOpt{}))
	}
	weighted := r.Intn(2) == 0
	evs := make([]*CEvent, k)
	for i := range evs {
		kind := "Compare"
		if weighted {
			kind = "CompareWeighted"
		}
		evs[i] = &CEvent{Kind: kind, Prop: "C08", Case: label, Trees: []*PTree{pref, pcs[i]},
			Args: map[string]interface{}{"tips": tips, "identical": false, "rel": "multi", "swap": false, "history": "", "of": k, "cpus": cpus, "idx": i}}
	}
	// with two workers, each one waits (at most 30 ms) between building the structures of its tree and using them until
	// the other worker is at the same point with another tree: what must be private to a worker is then in use by both
	if cpus == 2 {
		var mu sync.Mutex
		inflight := 0
		tree.VerifGate = func(site string, worker, item int) {
			switch {
			case strings.HasSuffix(site, ".mid1"):
				mu.Lock()
				inflight++
				mu.Unlock()
			case strings.HasSuffix(site, ".mid2"):
				for i := 0; i < 30; i++ {
					mu.Lock()
					n := inflight
					mu.Unlock()
					if n >= 2 {
						break
					}
					time.Sleep(time.Millisecond)
				}
			case strings.HasSuffix(site, ".send"):
				mu.Lock()
				inflight--
				mu.Unlock()
			}
		}
		defer func() { tree.VerifGate = nil }()
	}
	evs[0].guard(calcTimeout, func() error {
		nrec := make([]int, k)
		if weighted {
			ch, err := tree.CompareWeighted(ref, feed(cmps), tips, false, cpus)
			if err != nil {
				return err
			}
			var recs []tree.WeightedBipartitionStats
			for st := range ch {
				recs = append(recs, st)
			}
			for _, st := range recs {
				if st.Id < 0 || st.Id >= k {
					return fmt.Errorf("record with identifier %d", st.Id)
				}
				nrec[st.Id]++
				evs[st.Id].Res = map[string]interface{}{"id": 0, "ref": i64s(st.Tree1, toUnitsSigned), "comp": i64s(st.Tree2, toUnitsSigned),
					"common": i64s(st.Common, toUnitsSigned), "same": st.Sametree, "err": st.Err != nil, "n": nrec[st.Id]}
			}
		} else {
			ch, err := tree.Compare(ref, feed(cmps), tips, false, cpus)
			if err != nil {
				return err
			}
			var recs []tree.BipartitionStats
			for st := range ch {
				recs = append(recs, st)
			}
			for _, st := range recs {
				if st.Id < 0 || st.Id >= k {
					return fmt.Errorf("record with identifier %d", st.Id)
				}
				nrec[st.Id]++
				evs[st.Id].Res = map[string]interface{}{"id": 0, "tree1": st.Tree1, "tree2": st.Tree2, "common": st.Common,
					"same": st.Sametree, "err": st.Err != nil, "n": nrec[st.Id]}
			}
		}
		return nil
	})
	for i := 1; i < k; i++ {
		evs[i].Ok, evs[i].Err, evs[i].Panic, evs[i].Hang = evs[0].Ok, evs[0].Err, evs[0].Panic, evs[0].Hang
	}
	for i := range evs {
		if evs[i].Ok && evs[i].Res == nil {
			evs[i].Res = map[string]interface{}{"id": 0, "tree1": -1, "tree2": -1, "common": -1, "ref": []int64{}, "comp": []int64{}, "common_w": 0,
				"same": false, "err": false, "n": 0} // no record for this tree: CompareOneRecordPerTree
			if weighted {
				evs[i].Res["common"] = []int64{}
			}
		}
		cw.emit(evs[i])
	}
}

/* ------------------------------------------------------------------ C09 */

// a collection of trees on the same taxa around a base tree, so that split frequencies are spread
func collection(r *rand.Rand, gp *GenParams, names []string, n int, allowRooted bool) []*STree {
	base := genSTreeOn(r, gp, names, false, 0, 0)
	var out []*STree
	for i := 0; i < n; i++ {
		var s *STree
		switch r.Intn(5) {
		case 0:
			s = genSTreeOn(r, gp, names, false, 0, 0)
		case 1:
			s = base.clone()
		default:
			s = base.clone()
			k := r.Intn(3)
			for j := 0; j < k; j++ {
				s.nni(r)
			}
			if r.Intn(3) == 0 {
				s.contract(r, 0.3)
			}
		}
		s.relen(r, gp, true)
		s.shuffleKids(r)
		out = append(out, s)
	}
	return out
}

var dyadicCutoffs = [][2]int{{1, 2}, {9, 16}, {5, 8}, {3, 4}, {7, 8}, {1, 1}}

func caseC09(r *rand.Rand, cw *CalcWriter, label string, maxT int) {
	gp := calcGen(maxT)
	gp.PZeroLen = 0.05
	if r.Intn(4) == 0 {
		gp.PNegLen = 0.1
	}
	nt := pickTipsIn(r, maxT, 96)
	names := tipNamesN("t", nt)
	n := 1 + r.Intn(8)
	if nt > 60 {
		n = 1 + r.Intn(3) // large trees: small collections (the definition is recomputed by TLC on every tree)
	}
	coll := collection(r, &gp, names, n, true)
	// lengths: every tree carries all of them (most cases); none does (a collection of topologies); or some trees / some
	// branches do not (the mean is then over the trees that give the split a length)
	lenKind := r.Intn(12)
	var strip func(s *STree, root bool, p float64)
	strip = func(s *STree, root bool, p float64) {
		if !root && r.Float64() < p {
			s.Len = NILU
		}
		for _, c := range s.Ch {
			strip(c, false, p)
		}
	}
	mixed := false
	switch lenKind {
	case 0:
		for _, s := range coll {
			strip(s, true, 1)
		}
	case 1:
		if n >= 2 {
			mixed = true
			for i, s := range coll {
				if i%2 == 1 {
					strip(s, true, []float64{1, 0.4}[r.Intn(2)])
				}
			}
		}
	}
	rootedInputs := r.Intn(3) == 0
	var ts []*tree.Tree
	for _, s := range coll {
		how := r.Intn(3)
		if rootedInputs && r.Intn(2) == 0 {
			how = 3
		}
		ts = append(ts, present(r, s, how))
	}
	hist := ""
	if r.Intn(3) == 0 {
		for _, t := range ts {
			if r.Intn(2) == 0 {
				hist += staleEdits(r, t) + " "
			}
		}
	}
	cut := dyadicCutoffs[r.Intn(len(dyadicCutoffs))]
	kind := "Consensus"
	x := r.Intn(14)
	if x == 0 {
		cut = [][2]int{{1, 4}, {7, 16}, {9, 8}, {2, 1}}[r.Intn(4)]
		kind = "ConsensusBadCutoff"
	} else if x == 1 && n >= 2 {
		// a differing taxon in one tree
		i := r.Intn(n)
		s := coll[i].clone()
		leaf := s
		for len(leaf.Ch) > 0 {
			leaf = leaf.Ch[r.Intn(len(leaf.Ch))]
		}
		leaf.Name = "zz_other"
		ts[i] = present(r, s, 0)
		kind = "ConsensusBadTaxa"
	}
	if mixed && kind == "Consensus" {
		kind = "ConsensusMixedLengths"
	}
	cutoff := float64(cut[0]) / float64(cut[1])
	ev := &CEvent{Kind: kind, Prop: "C09", Case: label, Trees: projAll(ts, ProjOpt{}),
		Args: map[string]interface{}{"num": cut[0], "den": cut[1], "rooted_inputs": rootedInputs, "history": hist}}
	ev.guard(calcTimeout, func() error {
		c, err := tree.Consensus(feed(ts), cutoff)
		if err != nil {
			return err
		}
		ev.Out = project(c, ProjOpt{})
		l4, s4 := ev.Out.e4Edges()
		ev.Res = map[string]interface{}{"len4": l4, "sup4": s4}
		return nil
	})
	cw.emit(ev)
}

/* ------------------------------------------------------------------ C10 */

func caseC10(r *rand.Rand, cw *CalcWriter, label string, maxT int) {
	gp := calcGen(maxT)
	nt := pickTips(r, maxT)
	names := tipNamesN("t", nt)
	n := 1 + r.Intn(6)
	coll := collection(r, &gp, names, n+1, false)
	refS := coll[0]
	refRooted := r.Intn(4) == 0
	mismatchAt := -1
	if r.Intn(10) == 0 {
		mismatchAt = r.Intn(n)
		s := coll[1+mismatchAt]
		leaf := s
		for len(leaf.Ch) > 0 {
			leaf = leaf.Ch[r.Intn(len(leaf.Ch))]
		}
		leaf.Name = "zz_other"
	}
	mk := func() (ref *tree.Tree, boots []*tree.Tree) {
		rr := rand.New(rand.NewSource(int64(len(label)) + int64(nt*1000+n)))
		how := rr.Intn(3)
		if refRooted {
			how = 3
		}
		ref = present(rr, refS, how)
		for _, s := range coll[1:] {
			h := rr.Intn(4)
			boots = append(boots, present(rr, s, h))
		}
		return
	}
	for _, method := range []string{"FBP", "TBE"} {
		ref, boots := mk()
		// other order of the bootstrap trees for the second method run of the same case
		if method == "TBE" {
			r.Shuffle(len(boots), func(i, j int) { boots[i], boots[j] = boots[j], boots[i] })
		}
		if mismatchAt < 0 && r.Intn(3) == 0 {
			staleEdits(r, ref)
			for _, b := range boots {
				if r.Intn(2) == 0 {
					staleEdits(r, b)
				}
			}
			for i, e := range ref.Edges() {
				e.SetId(i)
			}
			if method == "TBE" {
				// TBE documents no indexing of the reference tree: its callers (gotree compute support tbe/booster)
				// index it first, and so does the harness; FBP and the bootstrap trees are indexed by the functions
				ref.ReinitIndexes()
			}
		}
		trees := append([]*PTree{project(ref, ProjOpt{})}, projAll(boots, ProjOpt{})...)
		kind := method
		if mismatchAt >= 0 {
			kind = method + "BadTaxa"
		}
		ev := &CEvent{Kind: kind, Prop: "C10", Case: label, Trees: trees,
			Args: map[string]interface{}{"method": method, "ref_rooted": refRooted, "mismatch_at": mismatchAt + 1}}
		ev.guard(calcTimeout, func() error {
			var err error
			if method == "FBP" {
				err = support.FBP(ref, feed(boots), 1, nil)
			} else {
				_, err = support.TBE(ref, feed(boots), 1, false, false, false, 0.3, nil, nil)
			}
			if err != nil {
				return err
			}
			ev.Out = project(ref, ProjOpt{})
			_, s4 := ev.Out.e4Edges()
			ev.Res = map[string]interface{}{"sup4": s4}
			return nil
		})
		cw.emit(ev)
	}
}

/* ------------------------------------------------------------------ direction A: replay of CalcModel cases */

type calcCase struct {
	Fam   string  `json:"fam"`
	Pat   int     `json:"pat"`
	Ref   mTree   `json:"ref"`
	Trees []mTree `json:"trees"`
	Tips  []struct {
		Nm string   `json:"nm"`
		St []string `json:"st"`
	} `json:"tips,omitempty"`
	Extra   map[string]interface{} `json:"extra,omitempty"`
	Cap     int                    `json:"cap,omitempty"`
	LoadNum int                    `json:"loadnum,omitempty"`
	LoadDen int                    `json:"loadden,omitempty"`
	NKeys   int                    `json:"nkeys,omitempty"`
	Ops     []idxOp                `json:"ops,omitempty"`
	K       *int                   `json:"k,omitempty"`
}

func init() {
	extraDrivers["replay-calc"] = func(fs *flag.FlagSet, args []string) {
		cases := fs.String("cases", "cases.ndjson", "")
		out := fs.String("out", "trace.ndjson", "")
		prop := fs.String("prop", "C08", "")
		tag := fs.String("tag", "case", "")
		shard := fs.Int("shard", 0, "")
		nshards := fs.Int("nshards", 1, "")
		fs.Parse(args)
		cw := newCalcWriter(*out)
		restore := silenceStderr()
		k := -1
		eachLine(*cases, func(line []byte) {
			k++
			if k%*nshards != *shard {
				return
			}
			var c calcCase
			if err := jsonUnmarshal(line, &c); err != nil {
				fatal("case %d: %v", k, err)
			}
			kk := k
			if c.K != nil {
				kk = *c.K
			}
			replayCalcCase(cw, &c, fmt.Sprintf("%s-%s-%d", *prop, *tag, kk), kk)
		})
		restore()
		cw.close()
		summary(map[string]interface{}{"events": cw.n, "kinds": cw.k})
	}
}

func mustModelTree(mt *mTree, rot int) *tree.Tree {
	t, _, err := buildModelTree(mt, rot)
	if err != nil {
		fatal("build model tree: %v", err)
	}
	for i, e := range t.Edges() {
		e.SetId(i)
	}
	for i, n := range t.Nodes() {
		n.SetId(i)
	}
	return t
}

func replayCalcCase(cw *CalcWriter, c *calcCase, label string, k int) {
	build := func(rotShift int) (ref *tree.Tree, ts []*tree.Tree) {
		if len(c.Ref.Nodes) > 0 {
			ref = mustModelTree(&c.Ref, k%3+rotShift)
		}
		for i := range c.Trees {
			ts = append(ts, mustModelTree(&c.Trees[i], (k+i)%2+rotShift))
		}
		return
	}
	switch c.Fam {
	case "C08":
		for _, tips := range []bool{false, true} {
			for _, identical := range []bool{false, true} {
				if identical && k%4 != 0 {
					continue
				}
				ref, ts := build(0)
				cmp := ts[len(ts)-1]
				ev := &CEvent{Kind: "Compare", Prop: "C08", Case: label, Trees: []*PTree{project(ref, ProjOpt{}), project(cmp, ProjOpt{})},
					Args: map[string]interface{}{"tips": tips, "identical": identical, "rel": "model", "swap": false}}
				ev.guard(calcTimeout, func() error {
					ch, err := tree.Compare(ref, feed([]*tree.Tree{cmp}), tips, identical, 1)
					if err != nil {
						return err
					}
					n := 0
					for st := range ch {
						n++
						ev.Res = map[string]interface{}{"id": st.Id, "tree1": st.Tree1, "tree2": st.Tree2, "common": st.Common,
							"same": st.Sametree, "err": st.Err != nil, "n": n}
					}
					return nil
				})
				cw.emit(ev)
			}
			ref, ts := build(1)
			cmp := ts[len(ts)-1]
			ev2 := &CEvent{Kind: "CompareWeighted", Prop: "C08", Case: label, Trees: []*PTree{project(ref, ProjOpt{}), project(cmp, ProjOpt{})},
				Args: map[string]interface{}{"tips": tips, "identical": false, "rel": "model", "swap": false}}
			ev2.guard(calcTimeout, func() error {
				ch, err := tree.CompareWeighted(ref, feed([]*tree.Tree{cmp}), tips, false, 1)
				if err != nil {
					return err
				}
				n := 0
				for st := range ch {
					n++
					ev2.Res = map[string]interface{}{"id": st.Id, "ref": i64s(st.Tree1, toUnitsSigned), "comp": i64s(st.Tree2, toUnitsSigned),
						"common": i64s(st.Common, toUnitsSigned), "same": st.Sametree, "err": st.Err != nil, "n": n}
				}
				return nil
			})
			cw.emit(ev2)
		}
	case "C09":
		cuts := [][2]int{{1, 2}, {5, 8}, {3, 4}, {1, 1}}
		if k%5 == 0 {
			cuts = append(cuts, [2]int{7, 16})
		}
		for _, cut := range cuts {
			_, ts := build(0)
			kind := "Consensus"
			if cut[0]*2 < cut[1] {
				kind = "ConsensusBadCutoff"
			}
			ev := &CEvent{Kind: kind, Prop: "C09", Case: label, Trees: projAll(ts, ProjOpt{}),
				Args: map[string]interface{}{"num": cut[0], "den": cut[1], "rooted_inputs": false}}
			ev.guard(calcTimeout, func() error {
				cs, err := tree.Consensus(feed(ts), float64(cut[0])/float64(cut[1]))
				if err != nil {
					return err
				}
				ev.Out = project(cs, ProjOpt{})
				l4, s4 := ev.Out.e4Edges()
				ev.Res = map[string]interface{}{"len4": l4, "sup4": s4}
				return nil
			})
			cw.emit(ev)
		}
	case "C10":
		for _, method := range []string{"FBP", "TBE"} {
			ref, boots := build(0)
			trees := append([]*PTree{project(ref, ProjOpt{})}, projAll(boots, ProjOpt{})...)
			ev := &CEvent{Kind: method, Prop: "C10", Case: label, Trees: trees,
				Args: map[string]interface{}{"method": method, "ref_rooted": false, "mismatch_at": 0}}
			ev.guard(calcTimeout, func() error {
				var err error
				if method == "FBP" {
					err = support.FBP(ref, feed(boots), 1, nil)
				} else {
					_, err = support.TBE(ref, feed(boots), 1, false, false, false, 0.3, nil, nil)
				}
				if err != nil {
					return err
				}
				ev.Out = project(ref, ProjOpt{})
				_, s4 := ev.Out.e4Edges()
				ev.Res = map[string]interface{}{"sup4": s4}
				return nil
			})
			cw.emit(ev)
		}
	case "C14":
		opt := ProjOpt{Rank: true}
		for metric, name := range metricNames {
			t, _ := build(0)
			ev := &CEvent{Kind: "DistMatrix", Prop: "C14", Case: label, Trees: []*PTree{project(t, opt)}, Args: map[string]interface{}{"metric": name}}
			metric := metric
			ev.guard(calcTimeout, func() error {
				m, tips := t.ToDistanceMatrix(metric)
				ev.Res = matrixRes(m, tips, toUnitsSigned)
				return nil
			})
			cw.emit(ev)
		}
		t0, _ := build(0)
		p0 := project(t0, opt)
		thrs := map[int64]bool{1 << 29: true}
		for _, e := range p0.E {
			if e.Len > 0 {
				thrs[e.Len] = true
				thrs[e.Len+4096] = true
				thrs[e.Len-4096] = true
			}
		}
		for thr := range thrs {
			if thr <= 0 {
				continue
			}
			t, _ := build(0)
			thr := thr
			ev := &CEvent{Kind: "TipBags", Prop: "C14", Case: label, Trees: []*PTree{project(t, opt)}, Args: map[string]interface{}{"thr": thr}}
			ev.guard(calcTimeout, func() error {
				bags, err := t.CutEdgesMaxLength(fromUnits(thr))
				if err != nil {
					return err
				}
				out := [][]string{}
				for _, b := range bags {
					g := []string{}
					for _, n := range b.Tips() {
						g = append(g, n.Name())
					}
					out = append(out, g)
				}
				ev.Res = map[string]interface{}{"bags": out}
				return nil
			})
			cw.emit(ev)
		}
	default:
		replayCalcExtra(cw, c, label, k)
	}
}
