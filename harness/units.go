package main

import (
	"math"
)

// Numbers are handed to TLC as exact integer multiples of 2^-20 ("units").
// TLC integers are 32 bit, so everything the harness generates stays far below 2^31 units.
const (
	UnitBits = 20
	Unit     = 1.0 / (1 << UnitBits)
	NILU     = -1 // absent length / support / p-value (gotree's -1 sentinel)
	INEXACTU = -2 // a float that is not an exact, in-range multiple of 2^-20
)

// toUnits converts a gotree float (length, support, pvalue) into units.
func toUnits(x float64) int64 {
	if x == -1.0 {
		return NILU
	}
	if math.IsNaN(x) || math.IsInf(x, 0) {
		return INEXACTU
	}
	u := x * (1 << UnitBits)
	if u != math.Trunc(u) || math.Abs(u) >= (1<<30) {
		return INEXACTU
	}
	return int64(u)
}

func fromUnits(u int64) float64 {
	if u == NILU {
		return -1.0
	}
	return float64(u) / (1 << UnitBits)
}

// micro converts a float to micro-units (10^-6), for quotients (means, supports).
func micro(x float64) int64 {
	if math.IsNaN(x) || math.IsInf(x, 0) || math.Abs(x) > 2000 {
		return -999999999
	}
	return int64(math.Round(x * 1e6))
}
