package main

import (
	"encoding/json"
	"flag"
	"fmt"
	"math"
	"math/rand"
	"os"
	"strconv"
	"strings"
	"time"

	"github.com/evolbioinfo/gotree/io/newick"
	"github.com/evolbioinfo/gotree/tree"
)

// C01 / C02 (Newick): decorated ordered trees D in the shape of spec/NewickDef.tla, token sequences, and the
// real writer / parser.

type dNode struct {
	Par int      `json:"par"`
	Ch  []int    `json:"ch"`
	Nm  string   `json:"nm"`
	Cm  []string `json:"cm"`
	Len int      `json:"len"`
	Sup int      `json:"sup"`
	Pv  int      `json:"pv"`
	Ecm []string `json:"ecm"`
}

type nwTok struct {
	K   string `json:"k"`
	Tx  string `json:"tx,omitempty"`
	Num int    `json:"num"`
	V   int    `json:"v"`
	V2  int    `json:"v2"`
	Ok  bool   `json:"ok"`
}

// tokens are marshalled with exactly the fields the TLA+ records have
func (t nwTok) MarshalJSON() ([]byte, error) {
	switch t.K {
	case "w":
		return json.Marshal(map[string]interface{}{"k": "w", "tx": t.Tx, "num": t.Num, "v": t.V, "v2": t.V2})
	case "len":
		return json.Marshal(map[string]interface{}{"k": "len", "ok": t.Ok, "v": t.V})
	case "cm":
		return json.Marshal(map[string]interface{}{"k": "cm", "ok": t.Ok, "tx": t.Tx})
	}
	return json.Marshal(map[string]interface{}{"k": t.K})
}

func (t *nwTok) UnmarshalJSON(b []byte) error {
	var m map[string]interface{}
	if err := json.Unmarshal(b, &m); err != nil {
		return err
	}
	t.K, _ = m["k"].(string)
	t.Tx, _ = m["tx"].(string)
	t.Ok, _ = m["ok"].(bool)
	t.Num = int(argInt(m["num"]))
	t.V = int(argInt(m["v"]))
	t.V2 = int(argInt(m["v2"]))
	return nil
}

// value symbols <-> float64, bit exact
type palette struct{ vals []float64 }

func (p *palette) sym(x float64, absent float64) int {
	if x == absent {
		return -1
	}
	for i, v := range p.vals {
		if math.Float64bits(v) == math.Float64bits(x) {
			return i + 1
		}
	}
	return -2
}

func (p *palette) val(s int) float64 { return p.vals[s-1] }
func fmtF(x float64) string          { return strconv.FormatFloat(x, 'f', -1, 64) }

var hardFloats = []float64{0.1 + 0.2, 5e-324, 1.7976931348623157e308, 2.2250738585072014e-308, 9007199254740993, 123456789.12345678,
	0.3, 1e-7, 1e21, 0.1, 1.0 / 3.0, 2.5, 1e-5, 4.35, 0.7071067811865476, 100, 0, 1e22, 8.41e-320, -2.5, -1e-3, -1e21}

// projection of a real tree into D (pre-order, children in neighbour order), values as symbols
func toD(t *tree.Tree, pal *palette, rename map[string]string) []dNode {
	out := []dNode{}
	var rec func(n, par *tree.Node, pid int, e *tree.Edge) int
	rec = func(n, par *tree.Node, pid int, e *tree.Edge) int {
		nm := n.Name()
		if r, ok := rename[nm]; ok {
			nm = r
		}
		d := dNode{Par: pid, Ch: []int{}, Nm: nm, Cm: strs(n.Comments()), Len: -1, Sup: -1, Pv: -1, Ecm: []string{}}
		if e != nil {
			d.Len = pal.sym(e.Length(), tree.NIL_LENGTH)
			d.Sup = pal.sym(e.Support(), tree.NIL_SUPPORT)
			d.Pv = pal.sym(e.PValue(), tree.NIL_PVALUE)
			d.Ecm = strs(e.Comments())
		}
		out = append(out, d)
		id := len(out)
		for i, m := range n.Neigh() {
			if m != par {
				c := rec(m, n, id, n.Edges()[i])
				out[id-1].Ch = append(out[id-1].Ch, c)
			}
		}
		return id
	}
	if t != nil && t.Root() != nil {
		rec(t.Root(), nil, 0, nil)
	}
	return out
}

// builds the real tree of D through the public API
func fromD(d []dNode, pal *palette) *tree.Tree {
	t := tree.NewTree()
	nodes := make([]*tree.Node, len(d))
	for i := range d {
		n := t.NewNode()
		n.SetName(d[i].Nm)
		for _, c := range d[i].Cm {
			n.AddComment(c)
		}
		nodes[i] = n
	}
	var rec func(i int)
	rec = func(i int) {
		for _, c := range d[i].Ch {
			e := t.ConnectNodes(nodes[i], nodes[c-1])
			if d[c-1].Len > 0 {
				e.SetLength(pal.val(d[c-1].Len))
			}
			if d[c-1].Sup > 0 {
				e.SetSupport(pal.val(d[c-1].Sup))
			}
			if d[c-1].Pv > 0 {
				e.SetPValue(pal.val(d[c-1].Pv))
			}
			for _, cm := range d[c-1].Ecm {
				e.AddComment(cm)
			}
			rec(c - 1)
		}
	}
	rec(0)
	t.SetRoot(nodes[0])
	return t
}

const nwMeta = "()[],:;"

// the harness' own tokenizer, following the lexical rules the parser documents: a word runs until a Newick
// metacharacter (blanks inside belong to it), blanks before a token are skipped
func tokenize(s string, pal *palette) []nwTok {
	out := []nwTok{}
	i, n := 0, len(s)
	isWS := func(c byte) bool { return c == ' ' || c == '\t' || c == '\n' || c == '\r' }
	word := func() string {
		st := i
		for i < n && !strings.ContainsRune(nwMeta, rune(s[i])) {
			i++
		}
		return s[st:i]
	}
	classify := func(w string) nwTok {
		if f, err := strconv.ParseFloat(w, 64); err == nil {
			return nwTok{K: "w", Tx: w, Num: 1, V: pal.sym(f, math.NaN()), V2: -1}
		}
		parts := strings.Split(w, "/")
		if len(parts) == 2 {
			if f, e1 := strconv.ParseFloat(parts[0], 64); e1 == nil {
				if g, e2 := strconv.ParseFloat(parts[1], 64); e2 == nil {
					return nwTok{K: "w", Tx: w, Num: 2, V: pal.sym(f, math.NaN()), V2: pal.sym(g, math.NaN())}
				}
			}
		}
		return nwTok{K: "w", Tx: w, Num: 0, V: -1, V2: -1}
	}
	for i < n {
		for i < n && isWS(s[i]) {
			i++
		}
		if i >= n {
			break
		}
		c := s[i]
		switch c {
		case '(', ')', ',', ';', ']':
			out = append(out, nwTok{K: string(c)})
			i++
		case '[':
			end := strings.IndexByte(s[i:], ']')
			if end < 0 {
				out = append(out, nwTok{K: "cm", Ok: false, Tx: s[i+1:]})
				i = n
			} else {
				out = append(out, nwTok{K: "cm", Ok: true, Tx: s[i+1 : i+end]})
				i += end + 1
			}
		case ':':
			i++
			for i < n && isWS(s[i]) {
				i++
			}
			w := word()
			if f, err := strconv.ParseFloat(w, 64); err == nil && w != "" {
				out = append(out, nwTok{K: "len", Ok: true, V: pal.sym(f, math.NaN())})
			} else {
				out = append(out, nwTok{K: "len", Ok: false, V: -1})
			}
		default:
			out = append(out, classify(word()))
		}
	}
	return out
}

// text of a token sequence emitted by the model; ws: blanks inserted before tokens
func concretize(toks []nwTok, pal *palette, r *rand.Rand, ws bool) (string, map[string]string) {
	var sb strings.Builder
	rename := map[string]string{}
	prevWord := false
	for _, t := range toks {
		// blanks after a word would belong to the word (the lexer's rule): only insert them elsewhere
		wsHere := ws && r != nil && !prevWord && r.Intn(4) == 0
		prevWord = t.K == "w" || t.K == "len"
		if wsHere {
			sb.WriteString([]string{" ", "\n", "\t ", "\r\n"}[r.Intn(4)])
		}
		switch t.K {
		case "w":
			switch t.Num {
			case 1:
				x := fmtF(pal.val(t.V))
				rename[x] = t.Tx
				sb.WriteString(x)
			case 2:
				x := fmtF(pal.val(t.V)) + "/" + fmtF(pal.val(t.V2))
				rename[x] = t.Tx
				sb.WriteString(x)
			default:
				sb.WriteString(t.Tx)
			}
		case "len":
			if t.Ok {
				sb.WriteString(":" + fmtF(pal.val(t.V)))
			} else {
				sb.WriteString(":x")
			}
		case "cm":
			if t.Ok {
				sb.WriteString("[" + t.Tx + "]")
			} else {
				sb.WriteString("[" + t.Tx)
			}
		case "eof":
			return sb.String(), rename
		default:
			sb.WriteString(t.K)
		}
	}
	return sb.String(), rename
}

type nwEvent struct {
	Ev        string  `json:"ev"`
	Kind      string  `json:"kind"`
	Case      string  `json:"case"`
	Cls       string  `json:"cls"`
	Toks      []nwTok `json:"toks"`
	Tree      []dNode `json:"tree"`
	Tree2     []dNode `json:"tree2"`
	Ok        bool    `json:"ok"`
	Same2     bool    `json:"same2"`
	Panic     bool    `json:"panic"`
	Hang      bool    `json:"hang"`
	PostCrash bool    `json:"postcrash"`
	Err       string  `json:"err"`
	Text      string  `json:"text"`
}

func emitNw(f *os.File, ev *nwEvent) {
	ev.Ev = "case"
	if ev.Toks == nil {
		ev.Toks = []nwTok{}
	}
	if ev.Tree == nil {
		ev.Tree = []dNode{}
	}
	if ev.Tree2 == nil {
		ev.Tree2 = []dNode{}
	}
	b, err := json.Marshal(ev)
	if err != nil {
		fatal("%v", err)
	}
	f.Write(b)
	f.Write([]byte("\n"))
}

// parses with the real parser under a watchdog; also exercises the delivered tree
func realParse(text string) (t *tree.Tree, ok, panicked, hang, post bool, errs string) {
	done := make(chan struct{})
	go func() {
		defer close(done)
		defer func() {
			if x := recover(); x != nil {
				panicked = true
				errs = fmt.Sprint(x)
			}
		}()
		tt, err := newick.NewParser(strings.NewReader(text)).Parse()
		if err != nil {
			errs = err.Error()
			return
		}
		t, ok = tt, true
	}()
	select {
	case <-done:
	case <-time.After(20 * time.Second):
		hang = true
		return
	}
	if ok {
		func() {
			defer func() {
				if x := recover(); x != nil {
					post = true
					errs = "after delivery: " + fmt.Sprint(x)
				}
			}()
			useDelivered(t)
		}()
	}
	return
}

// every delivered tree can be traversed, indexed and written back
func useDelivered(t *tree.Tree) {
	_ = t.Nodes()
	_ = t.Tips()
	_ = t.Edges()
	_ = t.Newick()
	_ = t.ReinitIndexes()
	_ = t.Newick()
}

func parseTextEvent(f *os.File, label string, toks []nwTok, pal *palette, r *rand.Rand, ws bool) {
	text, rename := concretize(toks, pal, r, ws)
	t, ok, pn, hg, post, errs := realParse(text)
	ev := &nwEvent{Kind: "ParseText", Case: label, Cls: "tokens", Toks: toks, Ok: ok, Panic: pn, Hang: hg, PostCrash: post, Err: errs}
	if len(text) < 300 {
		ev.Text = text
	}
	if ok && !post {
		ev.Tree2 = nil
		ev.Tree = toD(t, pal, rename)
	}
	// the trace spec reads the parsed tree in field "tree"
	emitNw(f, ev)
}

func roundTripEvent(f *os.File, label, cls string, d []dNode, pal *palette) {
	ev := &nwEvent{Kind: "RoundTrip", Case: label, Cls: cls, Tree: d}
	func() {
		defer func() {
			if x := recover(); x != nil {
				ev.Panic = true
				ev.Err = fmt.Sprint(x)
			}
		}()
		t := fromD(d, pal)
		text := t.Newick()
		ev.Toks = tokenize(text, pal)
		if len(text) < 300 {
			ev.Text = text
		}
		t2, err := newick.NewParser(strings.NewReader(text)).Parse()
		if err != nil {
			ev.Err = err.Error()
			return
		}
		ev.Ok = true
		ev.Tree2 = toD(t2, pal, nil)
		ev.Same2 = t2.Newick() == text
	}()
	emitNw(f, ev)
}

// a random decorated tree in the domain of C01
func randomD(r *rand.Rand, pal *palette, maxTips int) []dNode {
	gp := defaultGen()
	gp.MinTips, gp.MaxTips = 2, maxTips
	gp.PMulti = 0.4
	gp.Comments = 0.25
	gp.InnerNames = 0.3
	s := genSTree(r, &gp)
	nameP := []string{"a b", "x=1", "é", "A/B", "q'r", "Homo_sapiens", "e", "t.1", "-x", "#5"}
	d := []dNode{}
	pick := func() int { return 1 + r.Intn(len(pal.vals)) }
	var rec func(s *STree, par int, root bool) int
	rec = func(s *STree, par int, root bool) int {
		n := dNode{Par: par, Ch: []int{}, Nm: s.Name, Cm: []string{}, Len: -1, Sup: -1, Pv: -1, Ecm: []string{}}
		if len(s.Ch) == 0 && r.Intn(5) == 0 {
			n.Nm = nameP[r.Intn(len(nameP))] + strconv.Itoa(len(d))
		}
		if len(s.Ch) > 0 && n.Nm != "" && r.Intn(3) == 0 {
			// inner names that begin like a support or a support/p-value but are not numeric
			n.Nm = []string{"0.5/abc", "12/B.1", "1e-3x", "0.9/0.1/0.2", "7/q"}[r.Intn(5)] + strconv.Itoa(len(d))
		}
		for _, c := range s.Cm {
			n.Cm = append(n.Cm, c)
		}
		if r.Intn(12) == 0 {
			n.Cm = append(n.Cm, []string{"", "&a=1;b=(2,3)", "x[y", "co:m,(m)"}[r.Intn(4)])
		}
		if !root {
			if s.Len != NILU {
				n.Len = pick()
				if len(s.Ecm) > 0 || r.Intn(10) == 0 {
					n.Ecm = []string{"e" + strconv.Itoa(r.Intn(50))}
				}
			}
			if len(s.Ch) > 0 && s.Name == "" && (s.Sup != NILU || r.Intn(3) == 0) {
				n.Sup = pick()
				if s.Pv != NILU || r.Intn(5) == 0 {
					n.Pv = pick()
				}
			}
		}
		d = append(d, n)
		id := len(d)
		for _, c := range s.Ch {
			cid := rec(c, id, false)
			d[id-1].Ch = append(d[id-1].Ch, cid)
		}
		return id
	}
	rec(s, 0, true)
	return d
}

func init() {
	extraDrivers["nw"] = func(fs *flag.FlagSet, args []string) {
		seed := fs.Int64("seed", 1, "")
		from := fs.Int("from", 0, "")
		to := fs.Int("to", 10, "")
		maxT := fs.Int("maxtips", 40, "")
		out := fs.String("out", "trace.ndjson", "")
		fs.Parse(args)
		f, err := os.Create(*out)
		if err != nil {
			fatal("%v", err)
		}
		defer f.Close()
		for k := *from; k < *to; k++ {
			s := *seed*1000003 + int64(k)
			r := rand.New(rand.NewSource(s))
			// seed-dependent palette of hard values plus random finite bit patterns
			pal := &palette{}
			perm := r.Perm(len(hardFloats))
			for _, i := range perm[:6] {
				if pal.sym(hardFloats[i], math.NaN()) < 0 {
					pal.vals = append(pal.vals, hardFloats[i])
				}
			}
			for len(pal.vals) < 9 {
				x := math.Float64frombits(r.Uint64())
				if !math.IsNaN(x) && !math.IsInf(x, 0) && x != -1 && x >= 0 && pal.sym(x, math.NaN()) < 0 {
					pal.vals = append(pal.vals, x)
				}
			}
			mt := *maxT
			if k%10 == 0 {
				mt = *maxT * 5
			}
			roundTripEvent(f, fmt.Sprintf("C01-s%d-k%d", *seed, k), "random", randomD(r, pal, mt), pal)
		}
		summary(map[string]interface{}{"events": *to - *from})
	}
	extraDrivers["nw-replay"] = func(fs *flag.FlagSet, args []string) {
		cases := fs.String("cases", "cases.ndjson", "")
		out := fs.String("out", "trace.ndjson", "")
		prop := fs.String("prop", "C01", "")
		tag := fs.String("tag", "case", "")
		shard := fs.Int("shard", 0, "")
		nshards := fs.Int("nshards", 1, "")
		fs.Parse(args)
		f, err := os.Create(*out)
		if err != nil {
			fatal("%v", err)
		}
		defer f.Close()
		pal := &palette{vals: []float64{0.1 + 0.2, 5e-324}}
		k, n := -1, 0
		eachLine(*cases, func(line []byte) {
			k++
			if k%*nshards != *shard {
				return
			}
			var c struct {
				Toks     []nwTok `json:"toks"`
				Ok       bool    `json:"ok"`
				Tree     []dNode `json:"tree"`
				InDomain bool    `json:"indomain"`
				K        *int    `json:"k,omitempty"`
			}
			if err := json.Unmarshal(line, &c); err != nil {
				fatal("case %d: %v", k, err)
			}
			kk := k
			if c.K != nil {
				kk = *c.K
			}
			label := fmt.Sprintf("%s-%s-%d", *prop, *tag, kk)
			r := rand.New(rand.NewSource(int64(kk)))
			parseTextEvent(f, label, c.Toks, pal, r, kk%2 == 1)
			n++
			if c.InDomain {
				roundTripEvent(f, label, "model", c.Tree, pal)
				n++
			}
		})
		summary(map[string]interface{}{"events": n})
	}
}
