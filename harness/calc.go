package main

import (
	"strings"
	"bufio"
	"bytes"
	"encoding/json"
	"fmt"
	"math"
	"math/rand"
	"os"
	"sort"
	"time"

	"github.com/evolbioinfo/gotree/tree"
)

// "Calculation" cases: one recorded call of a computing entry point (comparison, consensus, supports,
// parsimony, distance matrix, ...) with the projections of its input trees, its arguments and its
// results. One line = one TLC step of spec/TraceCalc.tla, which recomputes the result from the
// definitions in spec/CalcProps.tla.
type CEvent struct {
	Ev    string                 `json:"ev"` // "case"
	Kind  string                 `json:"kind"`
	Prop  string                 `json:"prop"`
	Case  string                 `json:"case"`
	Trees []*PTree               `json:"trees"`
	Out   *PTree                 `json:"out"`
	Args  map[string]interface{} `json:"args"`
	Res   map[string]interface{} `json:"res"`
	Ok    bool                   `json:"ok"`
	Err   string                 `json:"err"`
	Panic bool                   `json:"panic"`
	Hang  bool                   `json:"hang"`
}

type CalcWriter struct {
	f *os.File
	w *bufio.Writer
	n int
	k map[string]int
}

func newCalcWriter(path string) *CalcWriter {
	f, err := os.Create(path)
	if err != nil {
		fatal("%v", err)
	}
	return &CalcWriter{f: f, w: bufio.NewWriterSize(f, 1<<20), k: map[string]int{}}
}

func (cw *CalcWriter) emit(ev *CEvent) {
	ev.Ev = "case"
	if ev.Args == nil {
		ev.Args = map[string]interface{}{"_": 0}
	}
	if ev.Res == nil {
		ev.Res = map[string]interface{}{"_": 0}
	}
	if ev.Trees == nil {
		ev.Trees = []*PTree{}
	}
	if ev.Out == nil {
		ev.Out = emptyTree
	}
	b, err := json.Marshal(ev)
	if err != nil {
		fatal("marshal: %v", err)
	}
	if bytes.Contains(b, []byte(":null")) {
		b = bytes.ReplaceAll(b, []byte(":null"), []byte(":[]"))
	}
	cw.w.Write(b)
	cw.w.WriteByte('\n')
	cw.n++
	cw.k[ev.Kind]++
}

func (cw *CalcWriter) close() {
	cw.w.Flush()
	cw.f.Close()
}

// runs f with a watchdog and a panic guard; fills Ok/Err/Panic/Hang
func (ev *CEvent) guard(timeout time.Duration, f func() error) {
	done := make(chan struct{})
	go func() {
		defer close(done)
		defer func() {
			if x := recover(); x != nil {
				ev.Panic = true
				ev.Ok = false
				ev.Err = fmt.Sprintf("panic: %v", x)
			}
		}()
		if err := f(); err != nil {
			ev.Ok = false
			ev.Err = err.Error()
		} else {
			ev.Ok = true
		}
	}()
	select {
	case <-done:
	case <-time.After(timeout):
		ev.Hang = true
		ev.Ok = false
		ev.Err = "watchdog: call did not return"
	}
}

// e4 converts a float (a quotient: mean, frequency, support) to units of 10^-4; -1 (absent) -> -10000
func e4(x float64) int64 {
	if math.IsNaN(x) || math.IsInf(x, 0) || math.Abs(x) > 100000 {
		return -99999999
	}
	return int64(math.Round(x * 1e4))
}

// signed units (differences of lengths): no "absent" reading of -1
func toUnitsSigned(x float64) int64 {
	if math.IsNaN(x) || math.IsInf(x, 0) {
		return -(1 << 30)
	}
	u := x * (1 << UnitBits)
	if u != math.Trunc(u) || math.Abs(u) >= (1<<30) {
		return -(1 << 30)
	}
	return int64(u)
}

// per-branch lengths and supports of a projected tree in 1e-4 units, indexed like p.E
func (p *PTree) e4Edges() (len4, sup4 []int64) {
	len4, sup4 = []int64{}, []int64{}
	for _, e := range p.edges {
		len4 = append(len4, e4(e.Length()))
		sup4 = append(sup4, e4(e.Support()))
	}
	return
}

/* ------------------------------------------------------------------ inputs */

func (s *STree) clone() *STree {
	c := *s
	c.Cm = append([]string{}, s.Cm...)
	c.Ecm = append([]string{}, s.Ecm...)
	c.Ch = nil
	for _, k := range s.Ch {
		c.Ch = append(c.Ch, k.clone())
	}
	return &c
}

// a random tree over exactly the given names
func genSTreeOn(r *rand.Rand, gp *GenParams, names []string, rooted bool, lenMode, supMode int) *STree {
	s := genShape(r, gp, names, true, rooted)
	ctr := 0
	decorate(r, gp, s, true, lenMode, supMode, &ctr)
	return s
}

func tipNamesN(prefix string, n int) []string {
	// names come in pairs that differ only by the case of a letter (t1, T1, t2, T2, ...): the order of the tips in
	// the bitsets, and everything keyed by it across trees, must not confuse them
	names := make([]string, n)
	for i := range names {
		p := prefix
		if i%2 == 1 {
			p = strings.ToUpper(prefix)
		}
		names[i] = fmt.Sprintf("%s%d", p, i/2+1)
	}
	return names
}

// contracts each inner non-root branch with probability p (the harness' own surgery on its input description)
func (s *STree) contract(r *rand.Rand, p float64) {
	var out []*STree
	for _, c := range s.Ch {
		c.contract(r, p)
		if len(c.Ch) > 0 && r.Float64() < p {
			out = append(out, c.Ch...)
		} else {
			out = append(out, c)
		}
	}
	s.Ch = out
}

// one random nearest-neighbour interchange on the description (keeps decorations on the moved subtrees)
func (s *STree) nni(r *rand.Rand) bool {
	type site struct{ par, ch *STree }
	var sites []site
	var rec func(n *STree)
	rec = func(n *STree) {
		for _, c := range n.Ch {
			if len(c.Ch) >= 2 && len(n.Ch) >= 2 {
				sites = append(sites, site{n, c})
			}
			rec(c)
		}
	}
	rec(s)
	if len(sites) == 0 {
		return false
	}
	st := sites[r.Intn(len(sites))]
	// swap a child of ch with a sibling of ch
	var sibIdx []int
	for i, x := range st.par.Ch {
		if x != st.ch {
			sibIdx = append(sibIdx, i)
		}
	}
	i := sibIdx[r.Intn(len(sibIdx))]
	j := r.Intn(len(st.ch.Ch))
	st.par.Ch[i], st.ch.Ch[j] = st.ch.Ch[j], st.par.Ch[i]
	return true
}

// new random lengths (same palette) on every branch
func (s *STree) relen(r *rand.Rand, gp *GenParams, root bool) {
	if !root {
		s.Len = genLen(r, gp, 0)
	}
	for _, c := range s.Ch {
		c.relen(r, gp, false)
	}
}

func (s *STree) shuffleKids(r *rand.Rand) {
	r.Shuffle(len(s.Ch), func(i, j int) { s.Ch[i], s.Ch[j] = s.Ch[j], s.Ch[i] })
	for _, c := range s.Ch {
		c.shuffleKids(r)
	}
}

// builds the real tree and optionally presents it differently (other root, other child order) using the
// library itself; whatever comes out is projected and is the input the oracle judges against.
func present(r *rand.Rand, s *STree, how int) *tree.Tree {
	t, err := build(s)
	if err != nil {
		fatal("build: %v", err)
	}
	switch how {
	case 1: // another inner node as root
		var inner []*tree.Node
		for _, n := range t.Nodes() {
			if n.Nneigh() >= 3 {
				inner = append(inner, n)
			}
		}
		if len(inner) > 0 {
			t.Reroot(inner[r.Intn(len(inner))])
		}
	case 2:
		t.RotateInternalNodes()
	case 3: // rooted on a random branch (outgroup = one side of it)
		p := project(t, ProjOpt{})
		if len(p.E) > 0 {
			side := p.sideOf(1 + r.Intn(len(p.E)))
			if len(side) > 0 && len(side) < len(p.tipNames()) {
				if err := t.RerootOutGroup(false, false, side...); err != nil {
					t, _ = build(s)
				}
				// halving a zero-length branch leaves the two root branches without length; the computing
				// entry points are specified for trees with lengths, so the input says 0 explicitly
				if s.allLens() {
					for _, e := range t.Edges() {
						if e.Length() == tree.NIL_LENGTH {
							e.SetLength(0)
						}
					}
				}
			}
		}
	}
	t.ReinitIndexes()
	// like the readers: nodes and branches carry consecutive identifiers
	for i, e := range t.Edges() {
		e.SetId(i)
	}
	for i, n := range t.Nodes() {
		n.SetId(i)
	}
	return t
}

func feed(ts []*tree.Tree) <-chan tree.Trees {
	ch := make(chan tree.Trees, len(ts)+1)
	for i, t := range ts {
		ch <- tree.Trees{Tree: t, Id: i, Err: nil}
	}
	close(ch)
	return ch
}

func projAll(ts []*tree.Tree, opt ProjOpt) []*PTree {
	out := []*PTree{}
	for _, t := range ts {
		out = append(out, project(t, opt))
	}
	return out
}

func sortedCopy(s []string) []string {
	c := append([]string{}, s...)
	sort.Strings(c)
	return c
}

func i64s(x []float64, f func(float64) int64) []int64 {
	out := []int64{}
	for _, v := range x {
		out = append(out, f(v))
	}
	return out
}

func silenceStderr() func() {
	old := os.Stderr
	null, err := os.OpenFile(os.DevNull, os.O_WRONLY, 0)
	if err != nil {
		return func() {}
	}
	os.Stderr = null
	return func() { os.Stderr = old; null.Close() }
}

func (s *STree) allLens() bool {
	for _, c := range s.Ch {
		if c.Len == NILU || !c.allLens() {
			return false
		}
	}
	return true
}

func eachLine(path string, f func(line []byte)) {
	fh, err := os.Open(path)
	if err != nil {
		fatal("%v", err)
	}
	defer fh.Close()
	sc := bufio.NewScanner(fh)
	sc.Buffer(make([]byte, 1<<20), 1<<26)
	for sc.Scan() {
		b := sc.Bytes()
		if len(bytes.TrimSpace(b)) == 0 {
			continue
		}
		f(append([]byte{}, b...))
	}
}

func jsonUnmarshal(b []byte, v interface{}) error { return json.Unmarshal(b, v) }

// Edits made AFTER a tree was indexed, that leave its derived data (tip index, bitsets, hashes, depths) as they
// were: the computing entry points are specified on the tree as it is, whatever its history. The tree that comes
// out is projected and is the input the oracle judges against.
func staleEdits(r *rand.Rand, t *tree.Tree) string {
	did := ""
	n := 1 + r.Intn(2)
	for i := 0; i < n; i++ {
		switch r.Intn(5) {
		case 0: // permute the tip names among the tips (same taxa, other labelling)
			names := t.AllTipNames()
			perm := r.Perm(len(names))
			m := map[string]string{}
			for j, nm := range names {
				m[nm] = names[perm[j]]
			}
			if err := t.Rename(m); err == nil {
				did += "rename;"
			}
		case 1:
			var inner []*tree.Node
			for _, nd := range t.Nodes() {
				if nd.Nneigh() >= 3 {
					inner = append(inner, nd)
				}
			}
			// (re-rooting a rooted tree at an inner node would leave the old root as a single-child node)
			if len(inner) > 0 && !t.Rooted() && t.Reroot(inner[r.Intn(len(inner))]) == nil {
				did += "reroot;"
			}
		case 2:
			t.RotateInternalNodes()
			did += "rotate;"
		case 3: // swap the names of two tips directly
			tips := t.Tips()
			if len(tips) >= 2 {
				a, b := tips[r.Intn(len(tips))], tips[r.Intn(len(tips))]
				na, nb := a.Name(), b.Name()
				a.SetName(nb)
				b.SetName(na)
				did += "swapnames;"
			}
		default: // contract one inner branch
			for _, e := range t.Edges() {
				if !e.Right().Tip() && e.Left() != nil && r.Intn(3) == 0 {
					t.RemoveEdges(false, false, e)
					did += "contract;"
					break
				}
			}
		}
	}
	return did
}
