package main

import (
	"bufio"
	"bytes"
	"encoding/json"
	"fmt"
	"os"
)

// One line of a recorded trace. Every field is always present (TLC records must have the fields the
// trace spec reads; absent JSON fields / nulls are avoided on purpose).
type Event struct {
	Ev    string                 `json:"ev"`   // "reset" starts a history; "op" is one public call; "obs" observes an object
	Case  string                 `json:"case"` // case label (history id)
	Op    string                 `json:"op"`
	Args  map[string]interface{} `json:"args"`
	Obj   string                 `json:"obj"` // which tracked object the call was applied to / is observed ("a" or "b")
	Ok    bool                   `json:"ok"`
	Err   string                 `json:"err"`
	Panic bool                   `json:"panic"`
	Post  *PTree                 `json:"post"`  // projection of Obj after the call
	Obj2  string                 `json:"obj2"`  // second object created / consumed by the call ("" if none)
	Post2 *PTree                 `json:"post2"` // its projection
	Res   map[string]interface{} `json:"res"`   // call-specific results (matrices, bags, look-ups, counts)
}

type TraceWriter struct {
	f    *os.File
	w    *bufio.Writer
	n    int
	path string
}

func newTraceWriter(path string) (*TraceWriter, error) {
	f, err := os.Create(path)
	if err != nil {
		return nil, err
	}
	return &TraceWriter{f: f, w: bufio.NewWriterSize(f, 1<<20), path: path}, nil
}

var emptyTree = &PTree{N: []PNode{}, E: []PEdge{}}

func (tw *TraceWriter) emit(ev *Event) {
	if ev.Args == nil {
		ev.Args = map[string]interface{}{"_": 0}
	}
	if ev.Res == nil {
		ev.Res = map[string]interface{}{"_": 0}
	}
	if ev.Post == nil {
		ev.Post = emptyTree
	}
	if ev.Post2 == nil {
		ev.Post2 = emptyTree
	}
	b, err := json.Marshal(ev)
	if err != nil {
		fatal("marshal: %v", err)
	}
	if bytes.Contains(b, []byte("null")) {
		// a nil slice slipped through; TLC's Json module cannot digest nulls
		b = bytes.ReplaceAll(b, []byte(":null"), []byte(":[]"))
	}
	tw.w.Write(b)
	tw.w.WriteByte('\n')
	tw.n++
}

func (tw *TraceWriter) close() {
	tw.w.Flush()
	tw.f.Close()
}

func fatal(f string, a ...interface{}) {
	fmt.Fprintf(os.Stderr, "HARNESS-ERROR: "+f+"\n", a...)
	os.Exit(2)
}
