package main

import (
	"bufio"
	"path/filepath"
	"encoding/base64"
	"encoding/json"
	"flag"
	"fmt"
	"io"
	"math/rand"
	"os"
	"os/exec"
	"strconv"
	"strings"
	"time"

	"github.com/evolbioinfo/gotree/io/fileutils"
	"github.com/evolbioinfo/gotree/io/nexus"
	"github.com/evolbioinfo/gotree/io/phyloxml"
	"github.com/evolbioinfo/gotree/io/utils"
	"github.com/evolbioinfo/gotree/tree"
)

// C13 (format conversions, multi-tree vs first-tree readers, the stream splitter) and C02 (readers are total).

var formatNames = map[int]string{utils.FORMAT_NEWICK: "newick", utils.FORMAT_NEXUS: "nexus", utils.FORMAT_PHYLOXML: "phyloxml", utils.FORMAT_NEXTSTRAIN: "nextstrain"}

func emitJSON(f *os.File, m map[string]interface{}) {
	b, err := json.Marshal(m)
	if err != nil {
		fatal("%v", err)
	}
	f.Write(b)
	f.Write([]byte("\n"))
}

/* ------------------------------------------------------------------ C13: conversions */

// (&, <, > and " are ordinary characters of a Newick or Nexus label; an XML writer has to escape them)
var legalNames = []string{"Homo_sapiens", "t.1", "A-b", "x9", "Mus|m", "sp#2", "K_", "z+1", "R&D", "a<b", "c>d", "q\"r"}

// a random tree with labels legal in the three formats, no comments, values from the palette
func randomConvD(r *rand.Rand, pal *palette, maxTips int, id int) []dNode {
	d := randomD(r, pal, maxTips)
	k := 0
	for i := range d {
		d[i].Cm, d[i].Ecm = []string{}, []string{}
		if len(d[i].Ch) == 0 {
			k++
			d[i].Nm = fmt.Sprintf("%s%d_%d", legalNames[r.Intn(len(legalNames))], id, k)
		} else if d[i].Nm != "" {
			d[i].Nm = fmt.Sprintf("N%d_%d", id, i)
			d[i].Sup, d[i].Pv = -1, -1
		}
	}
	d[0].Nm = ""
	return d
}

func readAll(text string, format int) (got []*tree.Tree, ids []int, multiErr bool, first *tree.Tree, firstErr error) {
	for tr := range utils.ReadMultiTrees(bufio.NewReader(strings.NewReader(text)), format) {
		if tr.Err != nil {
			multiErr = true
			continue
		}
		got = append(got, tr.Tree)
		ids = append(ids, tr.Id)
	}
	first, firstErr = utils.ReadTreeReader(bufio.NewReader(strings.NewReader(text)), format)
	return
}

func convertEvent(f *os.File, label, chain string, format int, text string, orig [][]dNode, pal *palette, pv bool) {
	ev := map[string]interface{}{"ev": "case", "kind": "Convert", "case": label, "cls": chain, "orig": orig, "pv": pv,
		"panic": false, "hang": false, "multierr": false, "got": [][]dNode{}, "ids": []int{}, "first": []dNode{}, "firstok": false, "err": ""}
	done := make(chan struct{})
	go func() {
		defer close(done)
		defer func() {
			if x := recover(); x != nil {
				ev["panic"] = true
				ev["err"] = fmt.Sprint(x)
			}
		}()
		got, ids, merr, first, ferr := readAll(text, format)
		gd := [][]dNode{}
		for _, t := range got {
			// "and back": the tree read from the other format is written to Newick and read again
			if format != utils.FORMAT_NEWICK {
				back, _, _, _, _ := readAll(t.Newick()+"\n", utils.FORMAT_NEWICK)
				if len(back) == 1 {
					t = back[0]
				} else {
					t = nil
				}
			}
			gd = append(gd, toD(t, pal, nil))
		}
		if ids == nil {
			ids = []int{}
		}
		ev["got"], ev["ids"], ev["multierr"] = gd, ids, merr
		if ferr == nil && first != nil {
			ev["firstok"] = true
			ev["first"] = toD(first, pal, nil)
			if format != utils.FORMAT_NEWICK {
				back, _, _, _, _ := readAll(first.Newick()+"\n", utils.FORMAT_NEWICK)
				if len(back) == 1 {
					ev["first"] = toD(back[0], pal, nil)
				}
			}
		} else if ferr != nil {
			ev["err"] = ferr.Error()
		}
	}()
	select {
	case <-done:
	case <-time.After(30 * time.Second):
		ev["hang"] = true
	}
	if len(text) < 400 {
		ev["text"] = text
	}
	emitJSON(f, ev)
}

func caseC13(r *rand.Rand, f *os.File, label string, maxTips int, cli *cliEnv) {
	pal := &palette{vals: []float64{0.5, 1, 0.25, 2.75, 0.1, 1e-5, 12.5, 0.33, 100, 3, 0, -0.75}}
	k := 1 + r.Intn(6)
	if r.Intn(12) == 0 {
		k = 20 + r.Intn(30)
	}
	var orig [][]dNode
	var ts []*tree.Tree
	// the trees of one file share their taxa (a Nexus file has one TAXA block)
	nt := 3 + r.Intn(maxi(1, maxTips-2))
	names := []string{}
	for i := 0; i < nt; i++ {
		names = append(names, fmt.Sprintf("%s%d", legalNames[r.Intn(len(legalNames))], i))
	}
	for i := 0; i < k; i++ {
		d := convDOn(r, pal, names, i)
		orig = append(orig, d)
		ts = append(ts, fromD(d, pal))
	}
	// PhyloXML carries a support only together with ... any inner clade, names on every node; p-values are not carried
	if cli != nil && r.Intn(3) == 0 {
		// the same conversions through the commands: newick file -> reformat <fmt> -> file -> read back with --format <fmt>
		var sb strings.Builder
		for _, t := range ts {
			sb.WriteString(t.Newick() + "\n")
		}
		in := cli.file("conv.nw", sb.String())
		switch r.Intn(3) {
		case 0:
			out, rc, _ := cli.run("reformat", "nexus", "-i", in)
			if rc == 0 {
				convertEvent(f, label, "cli-nexus", utils.FORMAT_NEXUS, out, orig, pal, true)
				nx := cli.file("conv.nex", out)
				back, rc2, _ := cli.run("reformat", "newick", "-i", nx, "--format", "nexus")
				if rc2 == 0 {
					convertEvent(f, label, "cli-nexus-newick", utils.FORMAT_NEWICK, back, orig, pal, true)
				}
			}
		case 1:
			out, rc, _ := cli.run("reformat", "nexus", "--translate", "-i", in)
			if rc == 0 {
				convertEvent(f, label, "cli-nexus-translate", utils.FORMAT_NEXUS, out, orig, pal, true)
			}
		default:
			out, rc, _ := cli.run("reformat", "phyloxml", "-i", in)
			if rc == 0 {
				convertEvent(f, label, "cli-phyloxml", utils.FORMAT_PHYLOXML, out, orig, pal, false)
				px := cli.file("conv.xml", out)
				back, rc2, _ := cli.run("reformat", "newick", "-i", px, "--format", "phyloxml")
				if rc2 == 0 {
					convertEvent(f, label, "cli-phyloxml-newick", utils.FORMAT_NEWICK, back, orig, pal, false)
				}
			}
		}
		return
	}
	if r.Intn(6) == 0 {
		// the single-tree Nexus writer of the tree itself
		convertEvent(f, label, "tree-nexus", utils.FORMAT_NEXUS, ts[0].Nexus(), orig[:1], pal, true)
		return
	}
	switch r.Intn(5) {
	case 0: // Newick stream with blank lines, trees spanning lines
		var sb strings.Builder
		for _, t := range ts {
			nw := t.Newick()
			if r.Intn(3) == 0 {
				nw = strings.Replace(nw, ",", ",\n", 1+r.Intn(3))
			}
			sb.WriteString(nw)
			sb.WriteString([]string{"\n", "\n\n", "\r\n", " \n", "\n\n\n", "\t\n", " \t\r\n", "\t \n  \n"}[r.Intn(8)])
		}
		text := sb.String()
		if r.Intn(4) == 0 {
			text = strings.TrimRight(text, "\r\n ") // no newline after the last tree
		}
		convertEvent(f, label, "newick-stream", utils.FORMAT_NEWICK, text, orig, pal, true)
	case 1, 2:
		translate := r.Intn(2) == 0
		text, err := nexus.WriteNexus(feed(ts), translate)
		if err != nil {
			fatal("WriteNexus: %v", err)
		}
		chain := "nexus"
		if translate {
			chain = "nexus-translate"
		}
		convertEvent(f, label, chain, utils.FORMAT_NEXUS, text, orig, pal, true)
	case 3:
		// Nextstrain (reader only): one tree, every branch with a length given as the difference of two cumulative
		// divergences (dyadic values, so that the differences are exact), no supports; the document is written by the harness
		palNS := &palette{vals: []float64{0.5, 1, 0.25, 2.75, 12.5, 3, 100, 0, 0.0625}}
		d := convDOn(r, palNS, names, 0)
		for i := range d {
			d[i].Sup, d[i].Pv = -1, -1
			if i > 0 && d[i].Len < 0 {
				d[i].Len = 1 + r.Intn(len(palNS.vals))
			}
		}
		base := []float64{0, 0, 1.5, 40}[r.Intn(4)] // divergence of the root (only differences matter)
		var js func(i int, div float64) string
		js = func(i int, div float64) string {
			n := d[i-1]
			my := div
			if i > 1 {
				my = div + palNS.val(n.Len)
			}
			var sb strings.Builder
			sb.WriteString("{")
			if n.Nm != "" {
				b, _ := json.Marshal(n.Nm)
				sb.WriteString(`"name":` + string(b) + ",")
			}
			sb.WriteString(`"node_attrs":{"div":` + fmtF(my) + "}")
			if len(n.Ch) > 0 {
				sb.WriteString(`,"children":[`)
				for k, c := range n.Ch {
					if k > 0 {
						sb.WriteString(",")
					}
					sb.WriteString(js(c, my))
				}
				sb.WriteString("]")
			}
			sb.WriteString("}")
			return sb.String()
		}
		text := `{"version":"v2","meta":{"title":"x"},"tree":` + js(1, base) + "}\n"
		convertEvent(f, label, "nextstrain", utils.FORMAT_NEXTSTRAIN, text, [][]dNode{d}, palNS, false)
	default:
		text, err := phyloxml.WritePhyloXML(feed(ts))
		if err != nil {
			fatal("WritePhyloXML: %v", err)
		}
		// what PhyloXML cannot carry is removed from the expectation: p-values
		convertEvent(f, label, "phyloxml", utils.FORMAT_PHYLOXML, text, orig, pal, false)
	}
}

// the lines of a model document, concretised: "x" is a piece of tree text without ';'
func splitEvent(f *os.File, label string, lines [][]string) {
	var sb strings.Builder
	for _, ln := range lines {
		for _, c := range ln {
			switch c {
			case "x":
				sb.WriteString("(a,b)")
			default:
				sb.WriteString(c)
			}
		}
		sb.WriteString("\n")
	}
	text := sb.String()
	ev := map[string]interface{}{"ev": "case", "kind": "Split", "case": label, "cls": "model", "lines": lines, "panic": false, "hang": false, "groups": [][]string{}}
	done := make(chan struct{})
	go func() {
		defer close(done)
		defer func() {
			if x := recover(); x != nil {
				ev["panic"] = true
				ev["err"] = fmt.Sprint(x)
			}
		}()
		rd := bufio.NewReader(strings.NewReader(text))
		groups := [][]string{}
		for {
			g, err := fileutils.ReadUntilSemiColon(rd)
			if err != nil {
				break
			}
			// back to the model's characters
			g = strings.ReplaceAll(g, "(a,b)", "x")
			groups = append(groups, splitChars(g))
		}
		ev["groups"] = groups
	}()
	select {
	case <-done:
	case <-time.After(20 * time.Second):
		ev["hang"] = true
	}
	emitJSON(f, ev)
}

/* ------------------------------------------------------------------ C02: readers in an isolated worker */

type readJob struct {
	Id     int    `json:"id"`
	Format int    `json:"format"`
	Entry  string `json:"entry"` // "multi" or "first"
	Data   string `json:"data"`  // base64
}

type readRes struct {
	Id      int    `json:"id"`
	Outcome string `json:"outcome"` // ok, err, panic, hang
	NTrees  int    `json:"ntrees"`
	IdsOK   bool   `json:"idsok"`
	Post    bool   `json:"postcrash"`
	Err     string `json:"err"`
}

// worker: reads jobs (one JSON per line) on stdin, answers one line per job on stdout ("START id" first)
func readersWorker() {
	in := bufio.NewReaderSize(os.Stdin, 1<<20)
	out := bufio.NewWriter(os.Stdout)
	null, _ := os.OpenFile(os.DevNull, os.O_WRONLY, 0)
	if null != nil {
		os.Stderr = null
	}
	for {
		line, err := in.ReadBytes('\n')
		if len(line) > 1 {
			var j readJob
			if json.Unmarshal(line, &j) == nil {
				fmt.Fprintf(out, "START %d\n", j.Id)
				out.Flush()
				res := doRead(&j)
				b, _ := json.Marshal(res)
				out.Write(b)
				out.WriteByte('\n')
				out.Flush()
			}
		}
		if err != nil {
			return
		}
	}
}

func doRead(j *readJob) (res readRes) {
	res = readRes{Id: j.Id, Outcome: "err", IdsOK: true}
	data, _ := base64.StdEncoding.DecodeString(j.Data)
	defer func() {
		// a panic in this goroutine (the first-tree entry point, the post-delivery calls); a panic inside the
		// goroutine of ReadMultiTrees cannot be recovered: the worker dies and the parent records it
		if x := recover(); x != nil {
			res.Outcome = "panic"
			res.Err = fmt.Sprint(x)
		}
	}()
	var trees []*tree.Tree
	if j.Entry == "multi" {
		next := 0
		sawErr := false
		for tr := range utils.ReadMultiTrees(bufio.NewReader(strings.NewReader(string(data))), j.Format) {
			if tr.Err != nil {
				sawErr = true
				res.Err = tr.Err.Error()
				continue
			}
			if tr.Id != next {
				res.IdsOK = false
			}
			next++
			trees = append(trees, tr.Tree)
		}
		if !sawErr {
			res.Outcome = "ok"
		}
	} else {
		t, err := utils.ReadTreeReader(bufio.NewReader(strings.NewReader(string(data))), j.Format)
		if err == nil && t != nil {
			trees = append(trees, t)
			res.Outcome = "ok"
		} else if err != nil {
			res.Err = err.Error()
		}
	}
	res.NTrees = len(trees)
	func() {
		defer func() {
			if x := recover(); x != nil {
				res.Post = true
				res.Err = "after delivery: " + fmt.Sprint(x)
			}
		}()
		for _, t := range trees {
			if t != nil {
				useDelivered(t)
			}
		}
	}()
	return
}

// parent side: runs the jobs through worker processes; a dead worker = crash of the job in progress
func runReadJobs(jobs []readJob, perJob time.Duration) map[int]readRes {
	results := map[int]readRes{}
	next := 0
	bad := 0
	for next < len(jobs) {
		// a few crashes / hangs are evidence enough: the remaining jobs are not run (each hang costs the watchdog delay)
		if bad >= 4 {
			for ; next < len(jobs); next++ {
				results[jobs[next].Id] = readRes{Id: jobs[next].Id, Outcome: "err", IdsOK: true, Err: "not run: too many crashes or hangs before"}
			}
			break
		}
		cmd := exec.Command(os.Args[0], "readers-worker")
		stdin, _ := cmd.StdinPipe()
		stdout, _ := cmd.StdoutPipe()
		if err := cmd.Start(); err != nil {
			fatal("worker: %v", err)
		}
		go func(from int) {
			w := bufio.NewWriter(stdin)
			for i := from; i < len(jobs); i++ {
				b, _ := json.Marshal(jobs[i])
				if _, err := w.Write(append(b, '\n')); err != nil {
					return
				}
				if w.Flush() != nil {
					return
				}
			}
			stdin.Close()
		}(next)
		lines := make(chan string, 64)
		go func() {
			rd := bufio.NewReaderSize(stdout, 1<<20)
			for {
				ln, err := rd.ReadString('\n')
				if ln != "" {
					lines <- strings.TrimSpace(ln)
				}
				if err != nil {
					close(lines)
					return
				}
			}
		}()
		inProgress := -1
		alive := true
		for alive && next < len(jobs) {
			select {
			case ln, ok := <-lines:
				if !ok {
					alive = false
					break
				}
				if strings.HasPrefix(ln, "START ") {
					inProgress, _ = strconv.Atoi(ln[6:])
					continue
				}
				var r readRes
				if json.Unmarshal([]byte(ln), &r) == nil {
					results[r.Id] = r
					inProgress = -1
					next++
				}
			case <-time.After(perJob):
				// watchdog: the job in progress does not return
				id := jobs[next].Id
				results[id] = readRes{Id: id, Outcome: "hang", IdsOK: true, Err: "watchdog"}
				bad++
				cmd.Process.Kill()
				next++
				inProgress = -1
				alive = false
			}
		}
		cmd.Process.Kill()
		cmd.Wait()
		if inProgress >= 0 && next < len(jobs) {
			// the worker died while working on this job
			id := jobs[next].Id
			if _, seen := results[id]; !seen {
				results[id] = readRes{Id: id, Outcome: "panic", IdsOK: true, Err: "worker process died (panic in a reader goroutine or os.Exit)"}
				bad++
				next++
			}
		}
	}
	return results
}

/* valid documents and their mutations */

func validDocs(r *rand.Rand) map[int][]string {
	pal := &palette{vals: []float64{0.5, 1, 0.25, 2.75, 0.1, 1e-5}}
	mk := func(n int) []*tree.Tree {
		var ts []*tree.Tree
		for i := 0; i < n; i++ {
			ts = append(ts, fromD(randomConvD(r, pal, 6, i), pal))
		}
		return ts
	}
	docs := map[int][]string{}
	ts := mk(3)
	var nw strings.Builder
	for _, t := range ts {
		nw.WriteString(t.Newick() + "\n")
	}
	dec := fromD(randomD(r, pal, 6), pal) // with comments
	docs[utils.FORMAT_NEWICK] = []string{nw.String(), ts[0].Newick(), dec.Newick() + "\n", "(a:1[c],(b:2,c:3)0.9/0.1:1[e],d);\n\n(x,y,z);"}
	n1, _ := nexus.WriteNexus(feed(mk(2)), false)
	n2, _ := nexus.WriteNexus(feed(mk(2)), true)
	n3 := "#NEXUS\n[a comment]\nBEGIN TAXA;\n DIMENSIONS NTAX=3;\n TAXLABELS a b c;\nEND;\nBEGIN CHARACTERS;\n DIMENSIONS NCHAR=4;\n FORMAT DATATYPE=dna MISSING=? GAP=- INTERLEAVE=no;\n MATRIX\n a ACGT\n b AC-T\n c A?GT\n ;\nEND;\nBEGIN TREES;\n TREE t1 = [&R] (a:1,(b:1,c:1):0.5);\nEND;\nBEGIN UNKNOWNBLOCK;\n foo bar;\nEND;\n"
	docs[utils.FORMAT_NEXUS] = []string{n1, n2, n3}
	p1, _ := phyloxml.WritePhyloXML(feed(mk(2)))
	docs[utils.FORMAT_PHYLOXML] = []string{p1, `<phyloxml><phylogeny rooted="true"><clade><clade><name>a</name><branch_length>1</branch_length></clade><clade><taxonomy><scientific_name>b</scientific_name></taxonomy></clade></clade></phylogeny></phyloxml>`}
	docs[utils.FORMAT_NEXTSTRAIN] = []string{`{"version":"v2","tree":{"name":"r","node_attrs":{"div":0},"children":[{"name":"a","node_attrs":{"div":1,"country":{"value":"x y"}},"branch_attrs":{"labels":{"aa":"S:N501Y"}}},{"name":"n","node_attrs":{"div":0.5},"children":[{"name":"b","node_attrs":{"div":1.5}},{"name":"c","node_attrs":{"div":2,"accession":"A:1"}}]}]}}`}
	return docs
}

var spliceTokens = []string{"[", "]", "(", ")", ",", ";", ":", "=", " ", "\n", "  \n", "\t\n", "\r\n", "'", "\"", "/", "MISSING=", "GAP=", "DATATYPE=", "FORMAT", "MATRIX", "TRANSLATE",
	"BEGIN TREES;", "END;", "TREE t = ", "DIMENSIONS NTAX=", "NTAX=", "<clade>", "</clade>", "<name>", "&", "<", "{", "}", "\"children\":[", "null", "1e999", "-1", "NTAX=9223372036854775807;", "NCHAR=9223372036854775807;", "NTAX=99999999999999999999;", "NTAX=-3;", "9223372036854775807", "\x00", "\xff", "é"}

func mutate(r *rand.Rand, doc string) string {
	b := []byte(doc)
	switch r.Intn(8) {
	case 0: // truncation
		if len(b) > 0 {
			b = b[:r.Intn(len(b))]
		}
	case 1: // splice a token
		i := r.Intn(len(b) + 1)
		tk := spliceTokens[r.Intn(len(spliceTokens))]
		b = append(append(append([]byte{}, b[:i]...), tk...), b[i:]...)
	case 2: // delete a range
		if len(b) > 2 {
			i := r.Intn(len(b) - 1)
			j := i + 1 + r.Intn(mini(20, len(b)-i-1))
			b = append(append([]byte{}, b[:i]...), b[j:]...)
		}
	case 3: // flip bytes
		for k := 0; k < 1+r.Intn(3) && len(b) > 0; k++ {
			b[r.Intn(len(b))] = byte(r.Intn(256))
		}
	case 4: // duplicate a range
		if len(b) > 2 {
			i := r.Intn(len(b) - 1)
			j := i + 1 + r.Intn(mini(30, len(b)-i-1))
			b = append(append(append([]byte{}, b[:j]...), b[i:j]...), b[j:]...)
		}
	case 5: // whitespace-only lines, trailing blanks
		i := r.Intn(len(b) + 1)
		ws := []string{"\n   \n", "\n\t\n", " \n \n", "   ", "\n\n\n"}[r.Intn(5)]
		b = append(append(append([]byte{}, b[:i]...), ws...), b[i:]...)
	case 6: // truncation right after a splice token
		i := r.Intn(len(b) + 1)
		b = append(append([]byte{}, b[:i]...), spliceTokens[r.Intn(len(spliceTokens))]...)
	default: // two mutations
		return mutate(r, mutate(r, doc))
	}
	return string(b)
}

func mini(a, b int) int {
	if a < b {
		return a
	}
	return b
}

func init() {
	extraDrivers["readers-worker"] = func(fs *flag.FlagSet, args []string) { readersWorker() }
	extraDrivers["docs"] = func(fs *flag.FlagSet, args []string) {
		seed := fs.Int64("seed", 1, "")
		from := fs.Int("from", 0, "")
		to := fs.Int("to", 10, "")
		maxT := fs.Int("maxtips", 20, "")
		out := fs.String("out", "trace.ndjson", "")
		bin := fs.String("gotree", "", "gotree binary (command-line conversions)")
		fs.Parse(args)
		f, err := os.Create(*out)
		if err != nil {
			fatal("%v", err)
		}
		defer f.Close()
		var cli *cliEnv
		if *bin != "" {
			dir, err := os.MkdirTemp(filepath.Dir(*out), "conv")
			if err != nil {
				fatal("%v", err)
			}
			defer os.RemoveAll(dir)
			cli = &cliEnv{bin: *bin, dir: dir}
		}
		restore := silenceStderr()
		for k := *from; k < *to; k++ {
			s := *seed*1000003 + int64(k)
			caseC13(rand.New(rand.NewSource(s)), f, fmt.Sprintf("C13-s%d-k%d", *seed, k), *maxT, cli)
		}
		restore()
		summary(map[string]interface{}{"events": *to - *from})
	}
	extraDrivers["split-replay"] = func(fs *flag.FlagSet, args []string) {
		cases := fs.String("cases", "cases.ndjson", "")
		out := fs.String("out", "trace.ndjson", "")
		prop := fs.String("prop", "C13", "")
		tag := fs.String("tag", "splitcase", "")
		shard := fs.Int("shard", 0, "")
		nshards := fs.Int("nshards", 1, "")
		fs.Parse(args)
		f, err := os.Create(*out)
		if err != nil {
			fatal("%v", err)
		}
		defer f.Close()
		k, n := -1, 0
		eachLine(*cases, func(line []byte) {
			k++
			if k%*nshards != *shard {
				return
			}
			var c struct {
				Lines [][]string `json:"lines"`
				K     *int       `json:"k,omitempty"`
			}
			if err := json.Unmarshal(line, &c); err != nil {
				fatal("case %d: %v", k, err)
			}
			kk := k
			if c.K != nil {
				kk = *c.K
			}
			if c.Lines == nil {
				c.Lines = [][]string{}
			}
			for i := range c.Lines {
				if c.Lines[i] == nil {
					c.Lines[i] = []string{}
				}
			}
			splitEvent(f, fmt.Sprintf("%s-%s-%d", *prop, *tag, kk), c.Lines)
			n++
		})
		summary(map[string]interface{}{"events": n})
	}
	// documents of NexusDocs.tla: tokens -> bytes -> the real readers (isolated worker)
	extraDrivers["nexus-replay"] = func(fs *flag.FlagSet, args []string) {
		cases := fs.String("cases", "cases.ndjson", "")
		out := fs.String("out", "trace.ndjson", "")
		prop := fs.String("prop", "C02", "")
		tag := fs.String("tag", "nexuscase", "")
		shard := fs.Int("shard", 0, "")
		nshards := fs.Int("nshards", 1, "")
		fs.Parse(args)
		f, err := os.Create(*out)
		if err != nil {
			fatal("%v", err)
		}
		defer f.Close()
		var jobs []readJob
		meta := map[int]map[string]interface{}{}
		k := -1
		eachLine(*cases, func(line []byte) {
			k++
			if k%*nshards != *shard {
				return
			}
			var c struct {
				Toks   []string `json:"toks"`
				Kind   string   `json:"kind"`
				NTrees int      `json:"ntrees"`
				K      *int     `json:"k,omitempty"`
			}
			if err := json.Unmarshal(line, &c); err != nil {
				fatal("case %d: %v", k, err)
			}
			kk := k
			if c.K != nil {
				kk = *c.K
			}
			var sb strings.Builder
			for i, t := range c.Toks {
				if i > 0 && t != "\n" && c.Toks[i-1] != "\n" {
					sb.WriteString(" ")
				}
				sb.WriteString(t)
			}
			data := sb.String()
			for _, entry := range []string{"multi", "first"} {
				id := len(jobs)
				jobs = append(jobs, readJob{Id: id, Format: utils.FORMAT_NEXUS, Entry: entry, Data: base64.StdEncoding.EncodeToString([]byte(data))})
				txt := data
				if len(txt) > 400 {
					txt = txt[:400] + "..."
				}
				meta[id] = map[string]interface{}{"case": fmt.Sprintf("%s-%s-%d", *prop, *tag, kk), "entry": entry, "input": txt, "bytes": len(data), "dev": c.Kind, "expect": c.NTrees}
			}
		})
		res := runReadJobs(jobs, 15*time.Second)
		for id, r := range res {
			if r.Outcome == "panic" || r.Outcome == "hang" {
				again := runReadJobs([]readJob{jobs[id]}, 30*time.Second)
				if a, ok := again[jobs[id].Id]; ok {
					res[id] = a
				}
			}
		}
		counts := map[string]int{}
		for id := range jobs {
			r, ok := res[id]
			if !ok {
				r = readRes{Id: id, Outcome: "err", IdsOK: true, Err: "no result"}
			}
			m := meta[id]
			counts[m["dev"].(string)+"/"+r.Outcome]++
			emitJSON(f, map[string]interface{}{"ev": "case", "kind": "ReadBytes", "case": m["case"], "cls": "nexus-" + m["entry"].(string) + "-" + m["dev"].(string),
				"format": "nexus", "entry": m["entry"], "outcome": r.Outcome, "ntrees": r.NTrees, "idsok": r.IdsOK, "postcrash": r.Post,
				"err": r.Err, "input": m["input"], "bytes": m["bytes"], "expect": m["expect"]})
		}
		summary(map[string]interface{}{"events": len(jobs), "outcomes": counts})
	}
	extraDrivers["readers"] = func(fs *flag.FlagSet, args []string) {
		seed := fs.Int64("seed", 1, "")
		from := fs.Int("from", 0, "")
		to := fs.Int("to", 100, "")
		out := fs.String("out", "trace.ndjson", "")
		sweep := fs.Bool("sweep", false, "also run this shard's part of the systematic sweep")
		sweepMod := fs.Int("sweepmod", 1, "")
		sweepIdx := fs.Int("sweepidx", 0, "")
		fs.Parse(args)
		f, err := os.Create(*out)
		if err != nil {
			fatal("%v", err)
		}
		defer f.Close()
		var jobs []readJob
		meta := map[int]map[string]interface{}{}
		addJob := func(label string, format int, data string) {
			for _, entry := range []string{"multi", "first"} {
				id := len(jobs)
				jobs = append(jobs, readJob{Id: id, Format: format, Entry: entry, Data: base64.StdEncoding.EncodeToString([]byte(data))})
				txt := data
				if len(txt) > 300 {
					txt = txt[:300] + "..."
				}
				meta[id] = map[string]interface{}{"case": label, "format": formatNames[format], "entry": entry, "input": txt, "bytes": len(data)}
			}
		}
		if *sweep {
			// systematic part: every truncation of every small valid document, and at every '=', '[', ';', ',' and line end
			// the variants that remove the value / the closing bracket / the separator or insert a blank-only line
			docs := validDocs(rand.New(rand.NewSource(12345)))
			n := 0
			for _, format := range []int{utils.FORMAT_NEWICK, utils.FORMAT_NEXUS, utils.FORMAT_PHYLOXML, utils.FORMAT_NEXTSTRAIN} {
				for di, doc := range docs[format] {
					var variants []string
					for i := 0; i <= len(doc); i++ {
						variants = append(variants, doc[:i])
					}
					for i := 0; i < len(doc); i++ {
						c := doc[i]
						rest := doc[i+1:]
						switch c {
						case '=':
							// the value after '=' removed (up to the next blank, ';' or end of line), or replaced by a line end
							j := 0
							for j < len(rest) && !strings.ContainsRune(" \t\r\n;", rune(rest[j])) {
								j++
							}
							variants = append(variants, doc[:i+1]+rest[j:], doc[:i+1]+"\n"+rest[j:], doc[:i+1]+"\r\n", doc[:i+1]+" ;"+rest[j:])
						case '[', '(', '<', '{', '"':
							variants = append(variants, doc[:i]+rest, doc[:i+1]+string(c)+rest)
						case ']', ')', ';', ',', ':', '>', '}':
							variants = append(variants, doc[:i]+rest, doc[:i+1]+string(c)+rest)
						case '\n':
							variants = append(variants, doc[:i+1]+"  \t \n"+rest, doc[:i+1]+"\n"+rest)
						}
					}
					for vi, v := range variants {
						if n%*sweepMod == *sweepIdx {
							addJob(fmt.Sprintf("C02-sweep-%s-%d-%d", formatNames[format], di, vi), format, v)
						}
						n++
					}
				}
			}
		}
		if *sweep {
			// structured part: small PhyloXML / Nextstrain documents from a grammar (the decoders accept them; what
			// the clade converters then meet: no phylogeny, no clade, unnamed tips, single-child clades, deep nesting,
			// missing or odd attributes, null / wrong-typed JSON fields, other versions)
			n := 0
			for si, d := range structuredDocs() {
				if n%*sweepMod == *sweepIdx {
					addJob(fmt.Sprintf("C02-struct-%s-%d", formatNames[d.format], si), d.format, d.text)
				}
				n++
			}
		}
		for k := *from; k < *to; k++ {
			s := *seed*1000003 + int64(k)
			r := rand.New(rand.NewSource(s))
			docs := validDocs(r)
			format := []int{utils.FORMAT_NEWICK, utils.FORMAT_NEWICK, utils.FORMAT_NEXUS, utils.FORMAT_NEXUS, utils.FORMAT_PHYLOXML, utils.FORMAT_NEXTSTRAIN}[r.Intn(6)]
			base := docs[format][r.Intn(len(docs[format]))]
			var data string
			switch r.Intn(12) {
			case 0:
				data = base // the valid document itself
			case 1: // deep nesting
				n := 1000 * (1 + r.Intn(40))
				data = strings.Repeat("(", n) + "a" + strings.Repeat(")", n-r.Intn(2)) + ";"
			case 2: // another format's document
				other := docs[[]int{utils.FORMAT_NEWICK, utils.FORMAT_NEXUS, utils.FORMAT_PHYLOXML, utils.FORMAT_NEXTSTRAIN}[r.Intn(4)]]
				data = other[r.Intn(len(other))]
			default:
				data = mutate(r, base)
			}
			addJob(fmt.Sprintf("C02-s%d-k%d", *seed, k), format, data)
		}
		res := runReadJobs(jobs, 15*time.Second)
		// an outcome other than a clean return is re-run alone before being believed
		for id, r := range res {
			if r.Outcome == "panic" || r.Outcome == "hang" {
				again := runReadJobs([]readJob{jobs[id]}, 30*time.Second)
				if a, ok := again[jobs[id].Id]; ok {
					res[id] = a
				}
			}
		}
		counts := map[string]int{}
		for id := range jobs {
			r, ok := res[id]
			if !ok {
				r = readRes{Id: id, Outcome: "err", IdsOK: true, Err: "no result"}
			}
			m := meta[id]
			counts[m["format"].(string)+"/"+r.Outcome]++
			emitJSON(f, map[string]interface{}{"ev": "case", "kind": "ReadBytes", "case": m["case"], "cls": m["format"].(string) + "-" + m["entry"].(string),
				"format": m["format"], "entry": m["entry"], "outcome": r.Outcome, "ntrees": r.NTrees, "idsok": r.IdsOK, "postcrash": r.Post,
				"err": r.Err, "input": m["input"], "bytes": m["bytes"]})
		}
		summary(map[string]interface{}{"events": len(jobs), "outcomes": counts})
	}
}

var _ = io.EOF

// a random tree on the given tip names: lengths / supports present or not, inner names or supports, no comments
func convDOn(r *rand.Rand, pal *palette, names []string, id int) []dNode {
	gp := defaultGen()
	gp.PMulti = 0.4
	st := genShape(r, &gp, names, true, r.Intn(2) == 0)
	lenMode := r.Intn(3) // all, some, none
	supMode := r.Intn(3)
	d := []dNode{}
	pick := func() int { return 1 + r.Intn(len(pal.vals)) }
	var rec func(s *STree, par int, root bool) int
	rec = func(s *STree, par int, root bool) int {
		n := dNode{Par: par, Ch: []int{}, Nm: s.Name, Cm: []string{}, Len: -1, Sup: -1, Pv: -1, Ecm: []string{}}
		if !root {
			if lenMode == 0 || (lenMode == 1 && r.Intn(2) == 0) {
				n.Len = pick()
			}
			if len(s.Ch) > 0 {
				switch {
				case supMode == 0 || (supMode == 1 && r.Intn(2) == 0):
					n.Sup = pick()
					if r.Intn(6) == 0 {
						n.Pv = pick()
					}
				case r.Intn(4) == 0:
					n.Nm = fmt.Sprintf("N%d_%d", id, len(d))
				}
			}
		}
		d = append(d, n)
		me := len(d)
		for _, c := range s.Ch {
			cid := rec(c, me, false)
			d[me-1].Ch = append(d[me-1].Ch, cid)
		}
		return me
	}
	rec(st, 0, true)
	return d
}

type structDoc struct {
	format int
	text   string
}

// small documents that the XML / JSON decoders accept (or nearly), enumerated from a grammar of clades
func structuredDocs() []structDoc {
	var out []structDoc
	// clades: depth <= 3, 0..3 children, optional name / length / confidence / taxonomy
	var clades func(depth int) []string
	clades = func(depth int) []string {
		deco := []string{"", "<name>a</name>", "<branch_length>1.5</branch_length>", "<name>b</name><branch_length>0</branch_length><confidence type=\"bootstrap\">0.9</confidence>",
			"<taxonomy><scientific_name>s</scientific_name></taxonomy>", "<taxonomy><code>c</code></taxonomy>", "<branch_length>x</branch_length>", "<confidence>1e400</confidence>"}
		res := []string{}
		for _, d := range deco {
			res = append(res, "<clade>"+d+"</clade>")
		}
		if depth > 0 {
			sub := clades(depth - 1)
			pick := []string{sub[0], sub[1], sub[3], sub[len(sub)-1]}
			for _, d := range deco[:4] {
				res = append(res, "<clade>"+d+pick[0]+"</clade>")                 // single child
				res = append(res, "<clade>"+d+pick[1]+pick[2]+"</clade>")         // two children
				res = append(res, "<clade>"+d+pick[1]+pick[2]+pick[3]+"</clade>") // three
			}
		}
		return res
	}
	for _, c := range clades(2) {
		for _, rooted := range []string{"true", "false", "maybe", ""} {
			attr := ""
			if rooted != "" {
				attr = " rooted=\"" + rooted + "\""
			}
			out = append(out, structDoc{utils.FORMAT_PHYLOXML, "<phyloxml><phylogeny" + attr + ">" + c + "</phylogeny></phyloxml>"})
		}
		out = append(out, structDoc{utils.FORMAT_PHYLOXML, "<phyloxml><phylogeny rooted=\"true\">" + c + c + "</phylogeny><phylogeny>" + c + "</phylogeny></phyloxml>"})
	}
	for _, x := range []string{"<phyloxml></phyloxml>", "<phyloxml><phylogeny></phylogeny></phyloxml>", "<phyloxml/>", "<other/>", "", "<phyloxml><phylogeny rooted=\"true\"><clade/></phylogeny></phyloxml>",
		"<phyloxml><phylogeny><clade><clade><clade><clade><name>deep</name></clade></clade></clade></clade></phylogeny></phyloxml>",
		"<phyloxml>" + strings.Repeat("<phylogeny><clade><name>a</name></clade></phylogeny>", 50) + "</phyloxml>",
		"<phyloxml><phylogeny>" + strings.Repeat("<clade>", 3000) + "<name>x</name>" + strings.Repeat("</clade>", 3000) + "</phylogeny></phyloxml>"} {
		out = append(out, structDoc{utils.FORMAT_PHYLOXML, x})
	}
	// Nextstrain nodes
	var nodes func(depth int) []string
	nodes = func(depth int) []string {
		attrs := []string{`"name":"a","node_attrs":{"div":1}`, `"name":"","node_attrs":{"div":0.5}`, `"node_attrs":{}`, `"name":"b"`, `"name":"c","node_attrs":{"div":null}`,
			`"name":"d","node_attrs":{"div":"x"}`, `"name":"e","node_attrs":{"div":2,"num_date":{"value":2020.5},"country":{"value":"x, y:z"},"accession":"A B"},"branch_attrs":{"labels":{"aa":"S:N501Y, E:x"},"mutations":{"nuc":["A1T"]}}`,
			`"name":"f","branch_attrs":null,"children":null`}
		res := []string{}
		for _, a := range attrs {
			res = append(res, "{"+a+"}")
		}
		if depth > 0 {
			sub := nodes(depth - 1)
			for _, a := range attrs[:4] {
				sep := ","
				if a == "" {
					sep = ""
				}
				res = append(res, "{"+a+sep+`"children":[]}`)
				res = append(res, "{"+a+sep+`"children":[`+sub[0]+`]}`)
				res = append(res, "{"+a+sep+`"children":[`+sub[0]+","+sub[1]+","+sub[6]+`]}`)
			}
		}
		return res
	}
	for _, nd := range nodes(2) {
		for _, ver := range []string{`"version":"v2",`, `"version":"v1",`, ``, `"version":2,`} {
			out = append(out, structDoc{utils.FORMAT_NEXTSTRAIN, "{" + ver + `"tree":` + nd + "}"})
		}
	}
	for _, x := range []string{`{}`, `{"version":"v2"}`, `{"version":"v2","tree":null}`, `{"version":"v2","tree":[]}`, `[]`, `null`, `{"version":"v2","tree":{"children":[{"children":[{"children":[]}]}]}}`,
		`{"version":"v2","tree":` + strings.Repeat(`{"name":"n","children":[`, 2000) + `{"name":"x"}` + strings.Repeat(`]}`, 2000) + `}`} {
		out = append(out, structDoc{utils.FORMAT_NEXTSTRAIN, x})
	}
	return out
}
