package main

func replayEditCases(cases, out, prop string, shard, nshards int) (int, map[string]int) {
	return 0, map[string]int{}
}
