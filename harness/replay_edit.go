package main

import (
	"bufio"
	"encoding/json"
	"fmt"
	"math/rand"
	"os"
	"sort"
	"strings"

	"github.com/evolbioinfo/gotree/tree"
)

// Direction A: every transition TLC generated from the TreeOps model is a self-contained case
// {pre, op, args}. The same starting tree is built through the public API, the same call is made with
// the same arguments, and what the real code did is recorded for validation by TraceEdit.tla.

type mNode struct {
	Id  int    `json:"id"`
	Par int    `json:"par"`
	Nm  string `json:"nm"`
	Len int64  `json:"len"`
	Sup int64  `json:"sup"`
	Pv  int64  `json:"pv"`
}

type mTree struct {
	Root  int     `json:"root"`
	Nodes []mNode `json:"nodes"`
}

type mCase struct {
	Pre   mTree                  `json:"pre"`
	Op    string                 `json:"op"`
	Args  map[string]interface{} `json:"args"`
	Depth int                    `json:"depth"`
	K     *int                   `json:"k,omitempty"` // original case index (fixes the child-order rotation on replay)
}

// buildModelTree constructs the real tree of a model tree; children in increasing id order,
// optionally rotated (rot) so that several child orders of the same abstract tree are exercised.
func buildModelTree(mt *mTree, rot int) (*tree.Tree, map[int]*tree.Node, error) {
	kids := map[int][]int{}
	byId := map[int]*mNode{}
	for i := range mt.Nodes {
		n := &mt.Nodes[i]
		byId[n.Id] = n
		if n.Id != mt.Root {
			kids[n.Par] = append(kids[n.Par], n.Id)
		}
	}
	for k := range kids {
		sort.Ints(kids[k])
		if rot > 0 && len(kids[k]) > 1 {
			r := rot % len(kids[k])
			kids[k] = append(kids[k][r:], kids[k][:r]...)
		}
	}
	t := tree.NewTree()
	ptr := map[int]*tree.Node{}
	var rec func(id int, parent *tree.Node)
	rec = func(id int, parent *tree.Node) {
		mn := byId[id]
		n := t.NewNode()
		n.SetName(mn.Nm)
		ptr[id] = n
		if parent != nil {
			e := t.ConnectNodes(parent, n)
			if mn.Len != NILU {
				e.SetLength(fromUnits(mn.Len))
			}
			if mn.Sup != NILU {
				e.SetSupport(fromUnits(mn.Sup))
			}
			if mn.Pv != NILU {
				e.SetPValue(fromUnits(mn.Pv))
			}
		}
		for _, c := range kids[id] {
			rec(c, n)
		}
	}
	rec(mt.Root, nil)
	t.SetRoot(ptr[mt.Root])
	if err := t.ReinitIndexes(); err != nil {
		return nil, nil, err
	}
	return t, ptr, nil
}

func argStrs(a interface{}) []string {
	out := []string{}
	if l, ok := a.([]interface{}); ok {
		for _, x := range l {
			out = append(out, fmt.Sprint(x))
		}
	}
	return out
}

func argInt(a interface{}) int64 {
	switch v := a.(type) {
	case float64:
		return int64(v)
	case int:
		return int64(v)
	}
	return 0
}

func argBool(a interface{}) bool {
	b, _ := a.(bool)
	return b
}

// applyExplicit performs one public call with the given arguments (as emitted by the model).
func applyExplicit(h *hist, c *mCase, ptr map[int]*tree.Node) *Event {
	a := c.Args
	switch c.Op {
	case "Reroot":
		n := ptr[int(argInt(a["node"]))]
		ev := &Event{Op: "Reroot", Args: map[string]interface{}{"node": h.p.nodeId[n]}}
		guard(ev, func() error { return h.t.Reroot(n) })
		return h.finish(ev)
	case "RerootFirst":
		return opRerootFirst(h)
	case "UnRoot":
		return opUnRoot(h)
	case "RerootMidPoint":
		ev := &Event{Op: "RerootMidPoint"}
		guard(ev, func() error { return h.t.RerootMidPoint() })
		return h.finish(ev)
	case "RerootOutGroup":
		names := argStrs(a["names"])
		strict, remove := argBool(a["strict"]), argBool(a["remove"])
		ev := &Event{Op: "RerootOutGroup", Args: map[string]interface{}{"names": names, "strict": strict, "remove": remove}}
		guard(ev, func() error { return h.t.RerootOutGroup(remove, strict, names...) })
		return h.finish(ev)
	case "RemoveTips":
		names := argStrs(a["names"])
		revert := argBool(a["revert"])
		all := h.p.tipNames()
		ev := &Event{Op: "RemoveTips", Args: map[string]interface{}{"names": names, "revert": revert}}
		guard(ev, func() error { return h.t.RemoveTips(revert, names...) })
		ev = h.finish(ev)
		h.lookups(ev, append(all, "zz"))
		return ev
	case "CollapseShortBranches":
		thr, rr, rt := argInt(a["thr"]), argBool(a["root"]), argBool(a["tips"])
		ev := &Event{Op: c.Op, Args: map[string]interface{}{"thr": thr, "root": rr, "tips": rt}}
		guard(ev, func() error { h.t.CollapseShortBranches(fromUnits(thr), rr, rt); return nil })
		return h.finish(ev)
	case "CollapseLowSupport":
		thr, rr := argInt(a["thr"]), argBool(a["root"])
		ev := &Event{Op: c.Op, Args: map[string]interface{}{"thr": thr, "root": rr}}
		guard(ev, func() error { h.t.CollapseLowSupport(fromUnits(thr), rr); return nil })
		return h.finish(ev)
	case "CollapseTopoDepth":
		lo, hi, rr, rt := int(argInt(a["min"])), int(argInt(a["max"])), argBool(a["root"]), argBool(a["tips"])
		ev := &Event{Op: c.Op, Args: map[string]interface{}{"min": lo, "max": hi, "root": rr, "tips": rt}}
		guard(ev, func() error { return h.t.CollapseTopoDepth(lo, hi, rr, rt) })
		return h.finish(ev)
	case "Resolve":
		return opResolve(h)
	case "GraftTreeOnTip", "Merge":
		var mg mTree
		b, _ := json.Marshal(a["g"])
		if err := json.Unmarshal(b, &mg); err != nil {
			fatal("second tree of the case: %v", err)
		}
		g, _, err := buildModelTree(&mg, 0)
		if err != nil {
			fatal("second tree of the case: %v", err)
		}
		pg := project(g, h.opt)
		var ev *Event
		if c.Op == "Merge" {
			ev = &Event{Op: "Merge"}
			guard(ev, func() error { return h.t.Merge(g) })
		} else {
			tip := fmt.Sprint(a["tip"])
			ev = &Event{Op: "GraftTreeOnTip", Args: map[string]interface{}{"tip": tip}}
			guard(ev, func() error {
				if err := h.t.GraftTreeOnTip(tip, g); err != nil {
					return err
				}
				return h.t.ReinitIndexes()
			})
		}
		ev = h.finish(ev)
		ev.Obj2 = "g"
		ev.Post2 = pg
		return ev
	case "SubTree":
		n := ptr[int(argInt(a["node"]))]
		id := h.p.nodeId[n]
		ev := &Event{Op: "SubTree", Args: map[string]interface{}{"node": id}}
		var sub *tree.Tree
		guard(ev, func() error { sub = h.t.SubTree(n); return nil })
		if ev.Panic || sub == nil {
			return h.finish(ev)
		}
		ev = h.finish(ev)
		ev.Obj2 = "b"
		ev.Post2 = project(sub, h.opt)
		return ev
	case "Clone":
		return opClone(h)
	case "NNIAll":
		return opNNIAll(h)
	case "RemoveSingleNodes":
		return opRemoveSingle(h)
	case "RotateInternalNodes":
		return opRotate(h)
	case "SortNeighborsByTips":
		return opSort(h)
	case "InsertIdenticalTips":
		groups := [][]string{}
		if l, ok := a["groups"].([]interface{}); ok {
			for _, g := range l {
				groups = append(groups, argStrs(g))
			}
		}
		ev := &Event{Op: c.Op, Args: map[string]interface{}{"groups": groups}}
		guard(ev, func() error { return h.t.InsertIdenticalTips(groups) })
		return h.finish(ev)
	}
	return nil
}

var caseTag = "case"

func replayEditCases(cases, out, prop string, shard, nshards int) (int, map[string]int) {
	f, err := os.Open(cases)
	if err != nil {
		fatal("%v", err)
	}
	defer f.Close()
	tw, err := newTraceWriter(out)
	if err != nil {
		fatal("%v", err)
	}
	defer tw.close()
	ops := map[string]int{}
	opt := ProjOpt{}
	switch prop {
	case "C03":
		opt = ProjOpt{Enum: true, Text: true}
	case "C04":
		opt = ProjOpt{Idx: true}
	case "C15", "C17":
		opt = ProjOpt{Text: true}
	}
	sc := bufio.NewScanner(f)
	sc.Buffer(make([]byte, 1<<20), 1<<26)
	k := -1
	for sc.Scan() {
		line := strings.TrimSpace(sc.Text())
		if line == "" {
			continue
		}
		k++
		if k%nshards != shard {
			continue
		}
		var c mCase
		if err := json.Unmarshal([]byte(line), &c); err != nil {
			fatal("bad case line %d: %v", k, err)
		}
		if c.K != nil {
			k = *c.K
		}
		rand.Seed(int64(k))
		t, ptr, err := buildModelTree(&c.Pre, k%3)
		if err != nil {
			fatal("build case %d: %v", k, err)
		}
		h := &hist{r: rand.New(rand.NewSource(int64(k))), tw: tw, opt: opt, gp: defaultGen(), label: fmt.Sprintf("%s-%s-%d", prop, caseTag, k)}
		h.t = t
		if c.Op == "NNIAll" {
			// the presentation asked by the case (other root, rotated neighbour lists) is part of the starting tree
			if r := int(argInt(c.Args["preroot"])); r > 0 {
				if n, ok := ptr[r]; ok {
					t.Reroot(n)
				}
			}
			if argBool(c.Args["prerotate"]) {
				t.RotateInternalNodes()
			}
		}
		h.proj()
		tw.emit(&Event{Ev: "reset", Case: h.label, Op: "Init", Obj: "a", Ok: true, Post: h.p, Args: map[string]interface{}{"case": k}})
		ev := applyExplicit(h, &c, ptr)
		if ev == nil {
			continue
		}
		tw.emit(ev)
		ops[ev.Op]++
	}
	return tw.n, ops
}
