package main

import (
	"fmt"
	"math/rand"

	"github.com/evolbioinfo/gotree/tree"
)

// C16: generators and the topology enumerator, library level. The global math/rand source is seeded per
// case (the generators draw from it).

var genNames = []string{"uniform", "yule", "caterpillar", "balanced", "star", "starnames", "startree"}

func runGenerator(gen string, n int, rooted bool) (*tree.Tree, error) {
	switch gen {
	case "uniform":
		return tree.RandomUniformBinaryTree(n, rooted)
	case "yule":
		return tree.RandomYuleBinaryTree(n, rooted)
	case "caterpillar":
		return tree.RandomCaterpillarBinaryTree(n, rooted)
	case "balanced":
		return tree.RandomBalancedBinaryTree(n, rooted)
	case "starnames":
		return tree.StarTreeFromName(starNames(n)...)
	case "startree":
		// the star tree on the tips of another tree (what the consensus starts from)
		src, err := tree.StarTreeFromName(starNames(n)...)
		if err != nil {
			return nil, err
		}
		return tree.StarTreeFromTree(src)
	default:
		return tree.StarTree(n)
	}
}

// n names given in an order that is not the sorted one (and not the order of Tip0, Tip1, ...)
func starNames(n int) []string {
	names := []string{}
	for i := 0; i < n; i++ {
		names = append(names, fmt.Sprintf("n%d", (i*7+3)%maxi(n, 1)*3+i%3))
	}
	seen := map[string]bool{}
	out := []string{}
	for i, nm := range names {
		if seen[nm] {
			nm = fmt.Sprintf("%s_%d", nm, i)
		}
		seen[nm] = true
		out = append(out, nm)
	}
	return out
}

// documented minimum of each generator (n = tips, depth for balanced)
func genMin(gen string, rooted bool) int {
	switch gen {
	case "balanced":
		return 1
	case "star", "starnames", "startree":
		return 2
	}
	if rooted {
		return 3
	}
	return 2
}

func genEvent(gen string, n int, rooted bool, label string) *CEvent {
	ntips := n
	if gen == "balanced" {
		ntips = 1 << uint(maxi(n, 0))
	}
	kind := "Generator"
	if n < genMin(gen, rooted) {
		kind = "GeneratorTooSmall"
	}
	ev := &CEvent{Kind: kind, Prop: "C16", Case: label, Args: map[string]interface{}{"gen": gen, "n": n, "rooted": rooted}}
	ev.guard(calcTimeout, func() error {
		t, err := runGenerator(gen, n, rooted)
		if err != nil {
			return err
		}
		ev.Out = project(t, ProjOpt{Idx: true, Enum: true})
		l4, _ := ev.Out.e4Edges()
		ev.Res = map[string]interface{}{"len4": l4, "ntips": ntips}
		if gen == "starnames" || gen == "startree" {
			ev.Res["names"] = starNames(n)
		}
		return nil
	})
	if kind == "Generator" && ntips < 3 {
		// two tips joined by one branch is not a tree in the domain of the properties (some generators accept
		// it, some report an error): only "no crash, terminates" is claimed
		ev.Kind = "GeneratorTwoTips"
	}
	return ev
}

func caseC16(r *rand.Rand, cw *CalcWriter, label string, maxT int) {
	if r.Intn(12) == 0 {
		// the enumerator
		rooted := r.Intn(2) == 0
		n := 3 + r.Intn(3)
		if rooted {
			n = 2 + r.Intn(4)
		}
		cw.emit(topoEvent(n, rooted, label))
		return
	}
	gen := genNames[r.Intn(len(genNames))]
	rooted := r.Intn(2) == 0
	var n int
	switch {
	case gen == "balanced":
		n = r.Intn(5) // depth 0..4
		if r.Intn(8) == 0 {
			n = -1
		}
	case r.Intn(8) == 0:
		n = r.Intn(3) // around / below the minimum
	default:
		n = 2 + r.Intn(maxi(1, maxT*2))
	}
	cw.emit(genEvent(gen, n, rooted, label))
}

func topoEvent(n int, rooted bool, label string) *CEvent {
	kind := "Topologies"
	if (rooted && n < 2) || (!rooted && n < 3) {
		kind = "GeneratorTooSmall"
	}
	args := map[string]interface{}{"gen": "topologies", "n": n, "rooted": rooted}
	var names []string
	if (n+len(label))%2 == 0 && n >= 1 {
		// caller-supplied tip names
		for i := 0; i < n; i++ {
			names = append(names, fmt.Sprintf("sp_%c%d", 'a'+i, i))
		}
		args["names"] = names
	}
	ev := &CEvent{Kind: kind, Prop: "C16", Case: label, Args: args}
	ev.guard(calcTimeout, func() error {
		ts, err := tree.AllTopologies(n, rooted, names...)
		if err != nil {
			return err
		}
		ev.Trees = projAll(ts, ProjOpt{})
		return nil
	})
	return ev
}

func replayCalcExtra3(cw *CalcWriter, c *calcCase, label string, k int) {
	switch c.Fam {
	case "C16":
		// every generator at every size of the bound, several seeds; the enumerator at every feasible n
		n := int(argInt(c.Extra["n"]))
		rooted := argBool(c.Extra["rooted"])
		gen, _ := c.Extra["gen"].(string)
		if gen == "topologies" {
			cw.emit(topoEvent(n, rooted, label))
			return
		}
		for s := 0; s < 4; s++ {
			rand.Seed(int64(k*7919 + s))
			cw.emit(genEvent(gen, n, rooted, label))
		}
	default:
		replayCalcExtra4(cw, c, label, k)
	}
}
