package main

import (
	"flag"
	"fmt"
	"math/rand"
	"os"
	"path/filepath"
	"strconv"
	"strings"
)

// The observers of `gotree stats` (summary, edges, splits, nodes, tips), run by the gotree binary built from /repo on
// files of 1-3 random trees; every printed table is parsed back and recorded as one event per tree, judged by
// StatsProps.tla. What belongs to a listed property is reported under it (C03: counts and enumerations; C04: dumped
// bitsets and topological depths), the rest is growth of the specification (notes).

func atoi(s string) int64 {
	v, err := strconv.ParseInt(strings.TrimSpace(s), 10, 64)
	if err != nil {
		return -77777
	}
	return v
}

func statF4(s string) int64 {
	v, err := strconv.ParseFloat(strings.TrimSpace(s), 64)
	if err != nil {
		return -88888888
	}
	return e4(v)
}

func statUnits(s string) int64 {
	s = strings.TrimSpace(s)
	if s == "N/A" {
		return NILU
	}
	v, err := strconv.ParseFloat(s, 64)
	if err != nil {
		return INEXACTU
	}
	return toUnits(v)
}

// rows of a tab-separated table grouped by the tree id of the first column; the columns are found by the names of the
// header line (a table with its columns in another order, or with more columns, is read all the same), each row is
// returned in the order of `want`; ok is false when a wanted column is missing or a row is shorter than the header
func tableByTree(out string, want []string) (res map[int64][][]string, ok bool) {
	res = map[int64][][]string{}
	lines := strings.Split(strings.TrimRight(out, "\n"), "\n")
	if len(lines) == 0 {
		return res, false
	}
	header := strings.Split(lines[0], "\t")
	pos := map[string]int{}
	for i, h := range header {
		pos[strings.TrimSpace(h)] = i
	}
	idx := []int{}
	for _, w := range want {
		p, found := pos[w]
		if !found {
			return res, false
		}
		idx = append(idx, p)
	}
	ok = true
	for _, ln := range lines[1:] {
		if ln == "" {
			continue
		}
		f := strings.Split(ln, "\t")
		row := []string{}
		for _, p := range idx {
			if p >= len(f) {
				ok = false
				row = append(row, "")
			} else {
				row = append(row, f[p])
			}
		}
		id := atoi(row[0])
		res[id] = append(res[id], row)
	}
	return res, ok
}

func statsCase(c *cliEnv, r *rand.Rand, cw *CalcWriter, prop, label string, maxT int) {
	gp := calcGen(maxT)
	gp.MinTips = 2 + r.Intn(3)
	gp.PMulti = []float64{0, 0.3, 0.6}[r.Intn(3)]
	gp.InnerNames = []float64{0, 0.4}[r.Intn(2)]
	nt := 1 + r.Intn(3)
	var ss []*STree
	for i := 0; i < nt; i++ {
		ss = append(ss, genSTree(r, &gp))
	}
	in := treesFile(c, "s.nw", ss)
	trees := projTexts(ss, ProjOpt{Rank: true})
	emit := func(kind string, i int, hung bool, rc int, res map[string]interface{}, perr string) {
		ev := &CEvent{Kind: kind, Prop: prop, Case: label, Trees: []*PTree{trees[i]}, Args: map[string]interface{}{"id": i, "cli": true}, Hang: hung}
		if !hung && rc == 0 && perr == "" {
			ev.Ok = true
			ev.Res = res
		} else if !hung && rc == 0 {
			// the command succeeded but its table is not laid out as this harness expects (another column, ...): the layout of
			// an informational table is not part of a listed property -- a growth note, not a failure of the command
			ev.Ok = true
			ev.Res = map[string]interface{}{"unparsed": perr}
		} else {
			ev.Err = fmt.Sprintf("rc=%d %s", rc, perr)
		}
		cw.emit(ev)
	}
	kinds := map[string][]string{"C03": {"StatsSummary", "StatsNodes", "StatsTips"}, "C04": {"StatsEdges", "StatsSplits"}}[prop]
	kind := kinds[r.Intn(len(kinds))]
	switch kind {
	case "StatsSummary":
		out, rc, hung := c.run("stats", "-i", in)
		tb, okh := tableByTree(out, []string{"tree", "nodes", "tips", "edges", "meanbrlen", "sumbrlen", "meansupport", "mediansupport", "rooted", "nbcherries", "colless", "sackin"})
		for i := range ss {
			rows := tb[int64(i)]
			if hung || rc != 0 || !okh || len(rows) != 1 {
				emit(kind, i, hung, rc, nil, fmt.Sprintf("%d summary lines for tree %d", len(rows), i))
				continue
			}
			f := rows[0]
			dash := func(s string) int64 {
				if strings.TrimSpace(s) == "-" {
					return -1
				}
				return atoi(s)
			}
			emit(kind, i, hung, rc, map[string]interface{}{"id": atoi(f[0]), "nodes": atoi(f[1]), "tips": atoi(f[2]), "edges": atoi(f[3]),
				"mean4": statF4(f[4]), "sum4": statF4(f[5]), "msup4": statF4(f[6]), "medsup4": statF4(f[7]), "rooted": f[8] == "rooted",
				"cherries": atoi(f[9]), "colless": dash(f[10]), "sackin": dash(f[11])}, "")
		}
	case "StatsEdges":
		out, rc, hung := c.run("stats", "edges", "-i", in)
		tb, okh := tableByTree(out, []string{"tree", "brid", "length", "support", "terminal", "depth", "topodepth", "rootdepth", "rightname", "leftname"})
		for i := range ss {
			rows := []map[string]interface{}{}
			perr := ""
			if !okh {
				perr = "edge table without the expected columns"
			}
			for _, f := range tb[int64(i)] {
				rows = append(rows, map[string]interface{}{"id": atoi(f[0]), "brid": atoi(f[1]), "len": statUnits(f[2]), "sup": statUnits(f[3]), "term": f[4] == "true",
					"depth": atoi(f[5]), "topo": atoi(f[6]), "rdepth": atoi(f[7]), "rname": f[8], "lname": f[9]})
			}
			emit(kind, i, hung, rc, map[string]interface{}{"rows": rows}, perr)
		}
	case "StatsSplits":
		out, rc, hung := c.run("stats", "splits", "-i", in)
		// per tree: a line "Tree\t<names joined by |>" then one line "<id>\t<bits>" per branch
		type blk struct {
			header []string
			rows   []map[string]interface{}
		}
		var blocks []*blk
		perr := ""
		for _, ln := range strings.Split(strings.TrimRight(out, "\n"), "\n") {
			f := strings.Split(ln, "\t")
			if f[0] == "Tree" && len(f) == 2 {
				blocks = append(blocks, &blk{header: strings.Split(f[1], "|")})
				continue
			}
			if len(blocks) == 0 || len(f) != 2 {
				perr = "unexpected line " + strconv.Quote(ln)
				break
			}
			b := blocks[len(blocks)-1]
			f[1] = strings.TrimSuffix(f[1], ".") // DumpAsBits ends the string with a dot
			ones := []string{}
			for j, ch := range f[1] {
				if ch == '1' && j < len(b.header) {
					ones = append(ones, b.header[j])
				} else if ch != '0' && ch != '1' {
					perr = "unexpected bit string " + strconv.Quote(f[1])
				}
			}
			b.rows = append(b.rows, map[string]interface{}{"id": atoi(f[0]), "blen": len(f[1]), "ones": ones})
		}
		for i := range ss {
			if i >= len(blocks) {
				emit(kind, i, hung, rc, nil, "no block for tree "+strconv.Itoa(i)+" "+perr)
				continue
			}
			emit(kind, i, hung, rc, map[string]interface{}{"header": blocks[i].header, "rows": blocks[i].rows}, perr)
		}
	case "StatsNodes":
		out, rc, hung := c.run("stats", "nodes", "-i", in)
		tb, okh := tableByTree(out, []string{"tree", "nid", "nneigh", "name", "depth", "upnames", "downnames"})
		for i := range ss {
			rows := []map[string]interface{}{}
			perr := ""
			if !okh {
				perr = "node table without the expected columns"
			}
			for _, f := range tb[int64(i)] {
				downs := []string{}
				if f[6] != "" {
					downs = strings.Split(f[6], ",")
				}
				rows = append(rows, map[string]interface{}{"id": atoi(f[0]), "nid": atoi(f[1]), "nneigh": atoi(f[2]), "name": f[3], "depth": atoi(f[4]), "up": f[5], "downs": downs})
			}
			emit(kind, i, hung, rc, map[string]interface{}{"rows": rows}, perr)
		}
	case "StatsTips":
		out, rc, hung := c.run("stats", "tips", "-i", in)
		tb, okh := tableByTree(out, []string{"tree", "nneigh", "name", "ExternalBranch", "RootToTip"})
		for i := range ss {
			rows := []map[string]interface{}{}
			perr := ""
			if !okh {
				perr = "tip table without the expected columns"
			}
			for _, f := range tb[int64(i)] {
				rows = append(rows, map[string]interface{}{"id": atoi(f[0]), "nneigh": atoi(f[1]), "name": f[2], "ext4": statF4(f[3]), "rtt4": statF4(f[4])})
			}
			emit(kind, i, hung, rc, map[string]interface{}{"rows": rows}, perr)
		}
	}
}

func init() {
	extraDrivers["statscli"] = func(fs *flag.FlagSet, args []string) {
		prop := fs.String("prop", "C03", "")
		bin := fs.String("gotree", "", "")
		seed := fs.Int64("seed", 1, "")
		from := fs.Int("from", 0, "")
		to := fs.Int("to", 10, "")
		maxT := fs.Int("maxtips", 10, "")
		out := fs.String("out", "trace.ndjson", "")
		fs.Parse(args)
		dir, err := os.MkdirTemp(filepath.Dir(*out), "stats")
		if err != nil {
			fatal("%v", err)
		}
		defer os.RemoveAll(dir)
		c := &cliEnv{bin: *bin, dir: dir}
		cw := newCalcWriter(*out)
		for k := *from; k < *to; k++ {
			r := rand.New(rand.NewSource(*seed*1000003 + int64(k) + 991))
			statsCase(c, r, cw, *prop, fmt.Sprintf("%s-s%d-t%d", *prop, *seed, k), *maxT)
		}
		cw.close()
		summary(map[string]interface{}{"events": cw.n, "commands_run": c.n})
	}
}
