package main

import (
	"strings"
	"fmt"
	"math/rand"
	"sort"

	"github.com/evolbioinfo/gotree/tree"
)

// Random histories of public editing calls on real trees (direction B), and replay of TLC-emitted
// cases (direction A). Arguments are chosen from the real current state with getters only and are
// logged relative to the projection of the state *before* the call (dense ids of that projection).

type hist struct {
	r     *rand.Rand
	tw    *TraceWriter
	opt   ProjOpt
	t     *tree.Tree // object "a"
	p     *PTree     // its last projection
	b     *tree.Tree // object "b" (twin / extracted / consumed), may be nil
	pb    *PTree
	fresh int // counter for fresh tip names
	halv  int // number of halving operations so far (keeps dyadic values exact)
	gp    GenParams
	label string
}

type opFn func(h *hist) *Event // nil = not enabled in the current state

func (h *hist) proj() {
	h.p = project(h.t, h.opt)
}

// safely runs f, turning a panic into an event flag
func guard(ev *Event, f func() error) {
	defer func() {
		if x := recover(); x != nil {
			ev.Panic = true
			ev.Ok = false
			ev.Err = fmt.Sprintf("panic: %v", x)
		}
	}()
	err := f()
	if err != nil {
		ev.Ok = false
		ev.Err = err.Error()
	} else {
		ev.Ok = true
	}
}

func (h *hist) finish(ev *Event) *Event {
	ev.Ev = "op"
	ev.Obj = "a"
	ev.Case = h.label
	if ev.Panic {
		// the object may be arbitrarily broken; do not touch it again
		ev.Post = emptyTree
		return ev
	}
	func() {
		defer func() {
			if x := recover(); x != nil {
				ev.Panic = true
				ev.Err = fmt.Sprintf("panic in enumeration/writer after the call: %v", x)
				ev.Post = emptyTree
			}
		}()
		h.proj()
		ev.Post = h.p
	}()
	return ev
}

func (h *hist) singleChildFree() bool {
	for i, n := range h.p.N {
		if i+1 != h.p.Root && len(n.Nb) == 2 {
			return false
		}
	}
	return true
}

func (h *hist) anyNegLen() bool {
	for _, e := range h.p.E {
		if e.Len < NILU {
			return true
		}
	}
	return false
}

func (h *hist) allLens() bool {
	for _, e := range h.p.E {
		if e.Len < 0 {
			return false
		}
	}
	return true
}

func (h *hist) binary() bool {
	for i, n := range h.p.N {
		d := len(n.Nb)
		if i+1 == h.p.Root {
			if d != 2 && d != 3 {
				return false
			}
		} else if d != 1 && d != 3 {
			return false
		}
	}
	return true
}

// tips below the child end of edge id (by the harness' own walk over the projection)
func (p *PTree) sideOf(eid int) []string {
	e := p.E[eid-1]
	out := []string{}
	var rec func(n, from int)
	rec = func(n, from int) {
		nd := p.N[n-1]
		if len(nd.Nb) == 1 {
			out = append(out, nd.Nm)
			return
		}
		for _, m := range nd.Nb {
			if m != from {
				rec(m, n)
			}
		}
	}
	rec(e.R, e.L)
	return out
}

func complement(all, s []string) []string {
	in := map[string]bool{}
	for _, x := range s {
		in[x] = true
	}
	out := []string{}
	for _, x := range all {
		if !in[x] {
			out = append(out, x)
		}
	}
	return out
}

func (h *hist) randSubset(minKeepOut int) []string {
	all := h.p.tipNames()
	n := len(all)
	k := 1 + h.r.Intn(maxi(1, n-minKeepOut))
	perm := h.r.Perm(n)
	out := []string{}
	for i := 0; i < k && i < n; i++ {
		out = append(out, all[perm[i]])
	}
	sort.Strings(out)
	return out
}

func maxi(a, b int) int {
	if a > b {
		return a
	}
	return b
}

// a tip subset biased towards clades and complements of clades
func (h *hist) cladeish() []string {
	all := h.p.tipNames()
	x := h.r.Float64()
	var s []string
	if x < 0.55 && len(h.p.E) > 0 {
		s = h.p.sideOf(1 + h.r.Intn(len(h.p.E)))
		if h.r.Intn(2) == 0 {
			s = complement(all, s)
		}
	} else {
		s = h.randSubset(1)
	}
	if len(s) == 0 {
		s = []string{all[0]}
	}
	sort.Strings(s)
	return s
}

/* ---------------------------------------------------------------- operations */

func opReroot(h *hist) *Event {
	in := h.p.innerIds()
	if len(in) == 0 {
		return nil
	}
	id := in[h.r.Intn(len(in))]
	ev := &Event{Op: "Reroot", Args: map[string]interface{}{"node": id}}
	guard(ev, func() error { return h.t.Reroot(h.p.node(id)) })
	return h.finish(ev)
}

// Reroot on an inner node that has a single-child node among its ancestors: the branches of the chain are reversed,
// the former parent of a chain node becomes its only child (and does not list it first among its neighbours)
func opRerootBelowSingle(h *hist) *Event {
	p := h.p
	par := map[int]int{p.Root: 0}
	order := []int{p.Root}
	for i := 0; i < len(order); i++ {
		for _, m := range p.N[order[i]-1].Nb {
			if _, seen := par[m]; !seen {
				par[m] = order[i]
				order = append(order, m)
			}
		}
	}
	var cands []int
	for _, id := range p.innerIds() {
		for a := par[id]; a != 0; a = par[a] {
			if a != p.Root && len(p.N[a-1].Nb) == 2 {
				cands = append(cands, id)
				break
			}
		}
	}
	if len(cands) == 0 {
		return nil
	}
	id := cands[h.r.Intn(len(cands))]
	ev := &Event{Op: "Reroot", Args: map[string]interface{}{"node": id}}
	guard(ev, func() error { return h.t.Reroot(h.p.node(id)) })
	return h.finish(ev)
}

func opRerootFirst(h *hist) *Event {
	ev := &Event{Op: "RerootFirst"}
	guard(ev, func() error { return h.t.RerootFirst() })
	return h.finish(ev)
}

func opUnRoot(h *hist) *Event {
	ev := &Event{Op: "UnRoot"}
	guard(ev, func() error { h.t.UnRoot(); return nil })
	return h.finish(ev)
}

func opRerootOutGroup(h *hist) *Event {
	if len(h.p.tipNames()) < 3 || h.halv >= 12 {
		return nil
	}
	names := h.cladeish()
	if h.r.Float64() < 0.2 {
		names = append(names, "zz_absent")
	}
	strict := h.r.Intn(2) == 0
	remove := h.r.Float64() < 0.3
	if remove && len(complement(h.p.tipNames(), names)) < 3 {
		remove = false
	}
	ev := &Event{Op: "RerootOutGroup", Args: map[string]interface{}{"names": names, "strict": strict, "remove": remove}}
	guard(ev, func() error { return h.t.RerootOutGroup(remove, strict, names...) })
	h.halv++
	return h.finish(ev)
}

func opRerootMidPoint(h *hist) *Event {
	if h.halv >= 12 || !h.allLens() || h.anyNegLen() {
		return nil // "the midpoint of the longest path" presupposes lengths that are present and not negative
	}
	ev := &Event{Op: "RerootMidPoint"}
	guard(ev, func() error { return h.t.RerootMidPoint() })
	h.halv++
	return h.finish(ev)
}

func opRemoveTips(h *hist) *Event {
	all := h.p.tipNames()
	if len(all) < 4 {
		return nil
	}
	var names []string
	revert := h.r.Float64() < 0.3
	if h.r.Float64() < 0.4 {
		s := h.p.sideOf(1 + h.r.Intn(len(h.p.E)))
		names = s
	} else {
		names = h.randSubset(3)
	}
	var removed []string
	if revert {
		removed = complement(all, names)
	} else {
		removed = names
	}
	if len(all)-len(removed) < 3 || len(removed) == 0 {
		// fall back to removing a single tip
		names = []string{all[h.r.Intn(len(all))]}
		revert = false
	}
	names = append([]string{}, names...)
	if h.r.Float64() < 0.2 {
		names = append(names, "zz_absent")
	}
	if h.r.Float64() < 0.15 {
		// a list padded with names the tree does not have, as long as the tree has tips or longer (a keep-list taken from
		// a larger data set)
		for i := 0; len(names) < len(all)+h.r.Intn(3); i++ {
			names = append(names, fmt.Sprintf("zz_absent%d", i))
		}
	}
	sort.Strings(names)
	ev := &Event{Op: "RemoveTips", Args: map[string]interface{}{"names": names, "revert": revert}}
	guard(ev, func() error { return h.t.RemoveTips(revert, names...) })
	ev = h.finish(ev)
	h.lookups(ev, append(all, "zz_absent"))
	return ev
}

// name look-ups after an edit (C06: look-ups reflect the new tip set)
func (h *hist) lookups(ev *Event, names []string) {
	if ev.Panic || !ev.Ok {
		return
	}
	ex := []string{}
	nodeok := []string{}
	func() {
		defer func() { recover() }()
		for _, nm := range names {
			if ok, err := h.t.ExistsTip(nm); err == nil && ok {
				ex = append(ex, nm)
			}
			if n, err := h.t.TipNode(nm); err == nil && n != nil {
				// the node answered must be the live tip of that name
				if id, found := h.p.nodeId[n]; found && h.p.N[id-1].Nm == nm {
					nodeok = append(nodeok, nm)
				} else {
					nodeok = append(nodeok, "!stale:"+nm)
				}
			}
		}
	}()
	ev.Res = map[string]interface{}{"asked": names, "exists": ex, "tipnode": nodeok}
}

func (h *hist) lenThreshold() int64 {
	// a value occurring in the tree, or just below / above one
	cands := []int64{}
	for _, e := range h.p.E {
		if e.Len >= 0 {
			cands = append(cands, e.Len)
		}
	}
	if len(cands) == 0 {
		return 1 << 16
	}
	v := cands[h.r.Intn(len(cands))]
	switch h.r.Intn(4) {
	case 0:
		v += 1 << 14
	case 1:
		if v >= 1<<14 {
			v -= 1 << 14
		}
	}
	return v
}

func opCollapseLen(h *hist) *Event {
	thr := h.lenThreshold()
	if h.r.Float64() < 0.1 {
		thr = 0
	}
	rmroot := h.r.Intn(2) == 0
	rmtips := h.r.Float64() < 0.25
	ev := &Event{Op: "CollapseShortBranches", Args: map[string]interface{}{"thr": thr, "root": rmroot, "tips": rmtips}}
	guard(ev, func() error { h.t.CollapseShortBranches(fromUnits(thr), rmroot, rmtips); return nil })
	return h.finish(ev)
}

func opCollapseSup(h *hist) *Event {
	cands := []int64{}
	for _, e := range h.p.E {
		if e.Sup >= 0 {
			cands = append(cands, e.Sup)
		}
	}
	thr := int64(1 << 19)
	if len(cands) > 0 {
		thr = cands[h.r.Intn(len(cands))]
		switch h.r.Intn(3) {
		case 0:
			thr += 1 << 12
		case 1:
			if thr >= 1<<12 {
				thr -= 1 << 12
			}
		}
	}
	rmroot := h.r.Intn(2) == 0
	ev := &Event{Op: "CollapseLowSupport", Args: map[string]interface{}{"thr": thr, "root": rmroot}}
	guard(ev, func() error { h.t.CollapseLowSupport(fromUnits(thr), rmroot); return nil })
	return h.finish(ev)
}

func opCollapseDepth(h *hist) *Event {
	n := len(h.p.tipNames())
	a := 1 + h.r.Intn(maxi(1, n/2))
	b := a + h.r.Intn(maxi(1, n/2-a+2))
	if h.r.Float64() < 0.1 {
		a, b = b+1, a // empty interval
	}
	rmroot := h.r.Intn(2) == 0
	rmtips := h.r.Float64() < 0.2
	ev := &Event{Op: "CollapseTopoDepth", Args: map[string]interface{}{"min": a, "max": b, "root": rmroot, "tips": rmtips}}
	guard(ev, func() error { return h.t.CollapseTopoDepth(a, b, rmroot, rmtips) })
	return h.finish(ev)
}

func opResolve(h *hist) *Event {
	ev := &Event{Op: "Resolve"}
	guard(ev, func() error { h.t.Resolve(); return nil })
	return h.finish(ev)
}

func opRotate(h *hist) *Event {
	ev := &Event{Op: "RotateInternalNodes"}
	guard(ev, func() error { h.t.RotateInternalNodes(); return nil })
	return h.finish(ev)
}

func opRotateNode(h *hist) *Event {
	in := h.p.innerIds()
	if len(in) == 0 {
		return nil
	}
	id := in[h.r.Intn(len(in))]
	ev := &Event{Op: "RotateNeighbors", Args: map[string]interface{}{"node": id}}
	guard(ev, func() error { h.p.node(id).RotateNeighbors(); return nil })
	return h.finish(ev)
}

func opSort(h *hist) *Event {
	ev := &Event{Op: "SortNeighborsByTips"}
	guard(ev, func() error { h.t.SortNeighborsByTips(); return nil })
	return h.finish(ev)
}

func opGraftTip(h *hist) *Event {
	if len(h.p.E) == 0 || h.halv >= 12 {
		return nil
	}
	eid := 1 + h.r.Intn(len(h.p.E))
	if h.p.E[eid-1].Len < 0 {
		return nil // GraftTipOnEdge halves the length: only meaningful on a branch that has one
	}
	h.fresh++
	nm := fmt.Sprintf("g%d", h.fresh)
	ev := &Event{Op: "GraftTipOnEdge", Args: map[string]interface{}{"edge": eid, "name": nm}}
	guard(ev, func() error {
		n := h.t.NewNode()
		n.SetName(nm)
		_, _, _, err := h.t.GraftTipOnEdge(n, h.p.edge(eid))
		if err != nil {
			return err
		}
		// as the generators do after grafting
		return h.t.ReinitIndexes()
	})
	h.halv++
	return h.finish(ev)
}

func opInsertIdentical(h *hist) *Event {
	all := h.p.tipNames()
	ng := 1 + h.r.Intn(3)
	if ng > len(all) {
		ng = len(all)
	}
	perm := h.r.Perm(len(all))
	groups := [][]string{}
	for g := 0; g < ng; g++ {
		grp := []string{}
		k := 1 + h.r.Intn(2)
		for i := 0; i < k; i++ {
			h.fresh++
			grp = append(grp, fmt.Sprintf("i%d", h.fresh))
		}
		// the existing member at a random position; in a later group it may be a tip that an earlier group of the same
		// call has just inserted (chained groups)
		member := all[perm[g]]
		if g > 0 && h.r.Intn(3) == 0 {
			prev := groups[h.r.Intn(len(groups))]
			for _, nm := range prev {
				if strings.HasPrefix(nm, "i") {
					member = nm
				}
			}
		}
		pos := h.r.Intn(len(grp) + 1)
		grp = append(grp[:pos], append([]string{member}, grp[pos:]...)...)
		groups = append(groups, grp)
	}
	ev := &Event{Op: "InsertIdenticalTips", Args: map[string]interface{}{"groups": groups}}
	guard(ev, func() error { return h.t.InsertIdenticalTips(groups) })
	return h.finish(ev)
}

func opRemoveSingle(h *hist) *Event {
	ev := &Event{Op: "RemoveSingleNodes"}
	guard(ev, func() error { h.t.RemoveSingleNodes(); return nil })
	return h.finish(ev)
}

func opRename(h *hist) *Event {
	all := h.p.tipNames()
	m := map[string]string{}
	keys := []string{}
	vals := []string{}
	for _, nm := range all {
		if h.r.Float64() < 0.4 {
			h.fresh++
			m[nm] = fmt.Sprintf("r%d", h.fresh)
			keys = append(keys, nm)
			vals = append(vals, m[nm])
		}
	}
	ev := &Event{Op: "Rename", Args: map[string]interface{}{"from": keys, "to": vals}}
	guard(ev, func() error { return h.t.Rename(m) })
	return h.finish(ev)
}

func opRenameAuto(h *hist) *Event {
	internals, tips := h.r.Intn(2) == 0, true
	ev := &Event{Op: "RenameAuto", Args: map[string]interface{}{"internals": internals, "tips": tips}}
	cur := h.fresh * 1000
	h.fresh++
	guard(ev, func() error { return h.t.RenameAuto(internals, tips, 8, &cur, map[string]string{}) })
	return h.finish(ev)
}

func opShuffleTips(h *hist) *Event {
	ev := &Event{Op: "ShuffleTips"}
	guard(ev, func() error { h.t.ShuffleTips(); return nil })
	return h.finish(ev)
}

func opReindex(h *hist) *Event {
	ev := &Event{Op: "ReinitIndexes"}
	guard(ev, func() error { return h.t.ReinitIndexes() })
	return h.finish(ev)
}

func opClearSupports(h *hist) *Event {
	ev := &Event{Op: "ClearSupports"}
	guard(ev, func() error { h.t.ClearSupports(); return nil })
	return h.finish(ev)
}

func opClearLengths(h *hist) *Event {
	in, ex := h.r.Intn(2) == 0, h.r.Intn(2) == 0
	ev := &Event{Op: "ClearLengths", Args: map[string]interface{}{"internal": in, "external": ex}}
	guard(ev, func() error { h.t.ClearLengths(in, ex); return nil })
	return h.finish(ev)
}

func opScaleLengths(h *hist) *Event {
	if h.halv >= 12 {
		return nil
	}
	f := []float64{0.5, 2, 1}[h.r.Intn(3)]
	for _, e := range h.p.E {
		if e.Len > 1<<27 && f > 1 {
			f = 0.5
		}
	}
	in, ex := h.r.Intn(2) == 0, h.r.Intn(2) == 0
	ev := &Event{Op: "ScaleLengths", Args: map[string]interface{}{"num": int(f * 2), "internal": in, "external": ex}}
	guard(ev, func() error { h.t.ScaleLengths(f, in, ex); return nil })
	if f < 1 {
		h.halv++
	}
	return h.finish(ev)
}

// Clone: the history continues on the clone (object a), the original becomes the observed twin b.
// With swap=false the history continues on the original and the clone is observed.
func opClone(h *hist) *Event {
	swap := h.r.Intn(2) == 0
	ev := &Event{Op: "Clone", Args: map[string]interface{}{"swap": swap}}
	var c *tree.Tree
	guard(ev, func() error { c = h.t.Clone(); return nil })
	if ev.Panic || c == nil {
		return h.finish(ev)
	}
	if swap {
		h.b, h.t = h.t, c
	} else {
		h.b = c
	}
	ev = h.finish(ev)
	h.pb = project(h.b, h.opt)
	ev.Obj2 = "b"
	ev.Post2 = h.pb
	return ev
}

// SubTree: extracts the subtree below an inner node as object b (observed afterwards).
func opSubTree(h *hist) *Event {
	in := h.p.innerIds()
	if len(in) == 0 {
		return nil
	}
	id := in[h.r.Intn(len(in))]
	ev := &Event{Op: "SubTree", Args: map[string]interface{}{"node": id}}
	var c *tree.Tree
	guard(ev, func() error { c = h.t.SubTree(h.p.node(id)); return nil })
	if ev.Panic || c == nil {
		return h.finish(ev)
	}
	h.b = c
	ev = h.finish(ev)
	h.pb = project(h.b, h.opt)
	ev.Obj2 = "b"
	ev.Post2 = h.pb
	return ev
}

// observe the twin: its projection must not have changed
func (h *hist) observeTwin() *Event {
	if h.b == nil {
		return nil
	}
	ev := &Event{Ev: "obs", Op: "Observe", Obj: "b", Case: h.label, Ok: true}
	func() {
		defer func() {
			if x := recover(); x != nil {
				ev.Panic = true
				ev.Err = fmt.Sprintf("panic while observing twin: %v", x)
				ev.Post = emptyTree
			}
		}()
		ev.Post = project(h.b, h.opt)
	}()
	return ev
}

func (h *hist) freshTree(rooted int, minT, maxT int) (*tree.Tree, *STree) {
	gp := h.gp
	gp.Rooted = rooted
	gp.MinTips, gp.MaxTips = minT, maxT
	h.fresh++
	gp.Prefix = fmt.Sprintf("x%d_", h.fresh)
	s := genSTree(h.r, &gp)
	t, err := build(s)
	if err != nil {
		fatal("build fresh: %v", err)
	}
	return t, s
}

func opGraftTree(h *hist) *Event {
	all := h.p.tipNames()
	if len(all) == 0 {
		return nil
	}
	tip := all[h.r.Intn(len(all))]
	g, _ := h.freshTree(2, 2, 5)
	pg := project(g, h.opt)
	ev := &Event{Op: "GraftTreeOnTip", Args: map[string]interface{}{"tip": tip}}
	guard(ev, func() error {
		if err := h.t.GraftTreeOnTip(tip, g); err != nil {
			return err
		}
		return h.t.ReinitIndexes()
	})
	ev = h.finish(ev)
	ev.Obj2 = "g"
	ev.Post2 = pg // the grafted tree as it was before the call
	h.b = nil
	return ev
}

func opMerge(h *hist) *Event {
	if len(h.p.N[h.p.Root-1].Nb) != 2 {
		return nil
	}
	g, _ := h.freshTree(1, 2, 5)
	pg := project(g, h.opt)
	ev := &Event{Op: "Merge"}
	guard(ev, func() error { return h.t.Merge(g) })
	ev = h.finish(ev)
	ev.Obj2 = "g"
	ev.Post2 = pg
	h.b = nil
	return ev
}

// NNI: enumerates the rearrangements of the current tree, applies the k-th, optionally undoes it.
func opNNI(h *hist) *Event {
	if !h.binary() {
		return nil
	}
	var list []tree.Rearrangement
	ev := &Event{Op: "NNI"}
	guard(ev, func() error {
		(&tree.NNIRearranger{}).Rearrange(h.t, func(r tree.Rearrangement) bool { list = append(list, r); return true })
		return nil
	})
	if ev.Panic || len(list) == 0 {
		if ev.Panic {
			return h.finish(ev)
		}
		return nil
	}
	k := h.r.Intn(len(list))
	undo := h.r.Intn(2) == 0
	// "again": the rearrangement is first tried and taken back (as when neighbours are scored), then applied for good
	again := h.r.Intn(3) == 0
	ev.Args = map[string]interface{}{"k": k + 1, "n": len(list), "undo": undo, "again": again}
	guard(ev, func() error {
		if again {
			if err := list[k].Apply(); err != nil {
				return err
			}
			if err := list[k].Undo(); err != nil {
				return err
			}
		}
		if err := list[k].Apply(); err != nil {
			return err
		}
		if undo {
			return list[k].Undo()
		}
		return nil
	})
	return h.finish(ev)
}

// in-place edits of comments (C15: a copy must not share its comment storage with its source)
func opCommentClearAdd(h *hist) *Event {
	ids := h.p.innerIds()
	ids = append(ids, h.p.tipIds()...)
	id := ids[h.r.Intn(len(ids))]
	h.fresh++
	c := fmt.Sprintf("z%d", h.fresh)
	ev := &Event{Op: "CommentClearAdd", Args: map[string]interface{}{"node": id, "comment": c}}
	whole := h.r.Intn(4) == 0
	guard(ev, func() error {
		n := h.p.node(id)
		n.ClearComments()
		n.AddComment(c)
		if h.r.Intn(2) == 0 {
			n.AddComment(c + "b")
		}
		// the same on branches: the one above the node, or every branch of the tree
		for _, e := range h.t.Edges() {
			if whole || e.Right() == n {
				e.ClearComments()
				e.AddComment(c + "e")
			}
		}
		if whole {
			h.t.ClearNodeComments()
			for _, m := range h.t.Nodes() {
				m.AddComment(c + "n")
			}
		}
		return nil
	})
	return h.finish(ev)
}

func opCommentAppend(h *hist) *Event {
	ids := h.p.innerIds()
	ids = append(ids, h.p.tipIds()...)
	id := ids[h.r.Intn(len(ids))]
	h.fresh++
	c := fmt.Sprintf("y%d", h.fresh)
	ev := &Event{Op: "CommentAppend", Args: map[string]interface{}{"node": id, "comment": c}}
	guard(ev, func() error {
		h.p.node(id).AddComment(c)
		// and on the branch above it, if any
		for i, e := range h.p.node(id).Edges() {
			if e.Right() == h.p.node(id) && i >= 0 {
				e.AddComment(c + "e")
			}
		}
		return nil
	})
	return h.finish(ev)
}

// the same in-place edits on the observed twin (object b): the history's own object must not change
func opTwinCommentEdit(h *hist) *Event {
	if h.b == nil {
		return nil
	}
	h.fresh++
	c := fmt.Sprintf("w%d", h.fresh)
	ev := &Event{Op: "TwinCommentEdit", Args: map[string]interface{}{"comment": c}}
	guard(ev, func() error {
		nodes := h.b.Nodes()
		n := nodes[h.r.Intn(len(nodes))]
		if h.r.Intn(2) == 0 {
			n.ClearComments()
		}
		n.AddComment(c)
		clearEdges := h.r.Intn(2) == 0
		for _, e := range h.b.Edges() {
			if h.r.Intn(3) == 0 {
				if clearEdges {
					e.ClearComments()
				}
				e.AddComment(c)
			}
		}
		return nil
	})
	// the twin changed on purpose: its reference projection is refreshed, object a is judged as usual
	ev = h.finish(ev)
	h.pb = project(h.b, h.opt)
	ev.Obj2 = "b"
	ev.Post2 = h.pb
	return ev
}

// NNIAll: the whole neighbourhood, each rearrangement applied, projected and undone (enumeration order)
func opNNIAll(h *hist) *Event {
	if !h.binary() || len(h.p.tipNames()) > 12 {
		return nil
	}
	// half of the time the proposals are kept and tried after the enumeration has returned (each one applied, recorded,
	// undone): the proposals must be independent objects
	collect := h.r.Intn(2) == 0
	ev := &Event{Op: "NNIAll", Args: map[string]interface{}{"collect": collect}}
	nb := []*PTree{}
	guard(ev, func() error {
		var err error
		if collect {
			var list []tree.Rearrangement
			(&tree.NNIRearranger{}).Rearrange(h.t, func(r tree.Rearrangement) bool { list = append(list, r); return true })
			for _, r := range list {
				if err = r.Apply(); err != nil {
					return err
				}
				nb = append(nb, project(h.t, ProjOpt{}))
				if err = r.Undo(); err != nil {
					return err
				}
			}
			return nil
		}
		(&tree.NNIRearranger{}).Rearrange(h.t, func(r tree.Rearrangement) bool {
			if err = r.Apply(); err != nil {
				return false
			}
			nb = append(nb, project(h.t, ProjOpt{}))
			if err = r.Undo(); err != nil {
				return false
			}
			return true
		})
		return err
	})
	ev = h.finish(ev)
	ev.Res = map[string]interface{}{"nb": nb}
	return ev
}

var editOps = map[string]opFn{
	"NNIAll": opNNIAll,
	"CommentClearAdd": opCommentClearAdd, "CommentAppend": opCommentAppend, "TwinCommentEdit": opTwinCommentEdit,
	"Reroot": opReroot, "RerootFirst": opRerootFirst, "UnRoot": opUnRoot, "RerootOutGroup": opRerootOutGroup,
	"RerootMidPoint": opRerootMidPoint, "RemoveTips": opRemoveTips, "CollapseShortBranches": opCollapseLen,
	"CollapseLowSupport": opCollapseSup, "CollapseTopoDepth": opCollapseDepth, "Resolve": opResolve,
	"RotateInternalNodes": opRotate, "RotateNeighbors": opRotateNode, "SortNeighborsByTips": opSort,
	"GraftTipOnEdge": opGraftTip, "InsertIdenticalTips": opInsertIdentical, "RemoveSingleNodes": opRemoveSingle,
	"Rename": opRename, "RenameAuto": opRenameAuto, "ShuffleTips": opShuffleTips, "ReinitIndexes": opReindex,
	"ClearSupports": opClearSupports, "ClearLengths": opClearLengths, "ScaleLengths": opScaleLengths,
	"Clone": opClone, "SubTree": opSubTree, "GraftTreeOnTip": opGraftTree, "Merge": opMerge, "NNI": opNNI,
}

// weight profiles per property family
var editProfiles = map[string]map[string]int{
	"C03": {"Reroot": 6, "RerootFirst": 1, "UnRoot": 4, "RerootOutGroup": 6, "RerootMidPoint": 3, "RemoveTips": 8,
		"CollapseShortBranches": 4, "CollapseLowSupport": 3, "CollapseTopoDepth": 3, "Resolve": 4, "RotateInternalNodes": 2,
		"RotateNeighbors": 1, "SortNeighborsByTips": 2, "GraftTipOnEdge": 3, "InsertIdenticalTips": 3, "RemoveSingleNodes": 3,
		"Rename": 1, "RenameAuto": 1, "ShuffleTips": 1, "Clone": 2, "SubTree": 1, "GraftTreeOnTip": 3, "Merge": 3, "NNI": 5,
		"ClearSupports": 1, "ClearLengths": 1, "ScaleLengths": 1, "ReinitIndexes": 1},
	"C05": {"Reroot": 8, "RerootFirst": 1, "UnRoot": 5, "RerootOutGroup": 12, "RerootMidPoint": 8, "RotateInternalNodes": 2,
		"RotateNeighbors": 1, "SortNeighborsByTips": 2, "RemoveTips": 1, "CollapseShortBranches": 1, "Resolve": 1},
	"C06": {"RemoveTips": 10, "Reroot": 1, "UnRoot": 1, "RerootOutGroup": 1, "CollapseShortBranches": 1, "RemoveSingleNodes": 1, "Resolve": 1, "RotateInternalNodes": 1},
	"C07": {"CollapseShortBranches": 6, "CollapseLowSupport": 6, "CollapseTopoDepth": 6, "Resolve": 6, "Reroot": 2, "UnRoot": 1, "RemoveTips": 1, "RotateInternalNodes": 1},
	"C15": {"CommentClearAdd": 4, "CommentAppend": 4, "TwinCommentEdit": 3, "Clone": 6, "SubTree": 3, "GraftTreeOnTip": 5, "Merge": 5, "InsertIdenticalTips": 5, "RemoveSingleNodes": 4, "Reroot": 3,
		"RemoveTips": 2, "CollapseShortBranches": 1, "Resolve": 1, "ShuffleTips": 1, "Rename": 1, "ReinitIndexes": 1, "ClearLengths": 1, "RotateInternalNodes": 1, "NNI": 1, "UnRoot": 1},
	"C17": {"NNIAll": 6, "NNI": 12, "RotateNeighbors": 2, "Reroot": 3, "UnRoot": 1, "RerootOutGroup": 2, "RotateInternalNodes": 1},
	"C04": {"Reroot": 4, "UnRoot": 2, "RerootOutGroup": 3, "RemoveTips": 4, "CollapseShortBranches": 2, "Resolve": 2, "RotateInternalNodes": 2,
		"SortNeighborsByTips": 1, "GraftTipOnEdge": 2, "InsertIdenticalTips": 2, "Clone": 2, "NNI": 2, "ReinitIndexes": 6, "ShuffleTips": 1, "Rename": 1, "Merge": 1, "GraftTreeOnTip": 1, "RemoveSingleNodes": 1},
}

func (h *hist) pick(profile map[string]int) string {
	names := make([]string, 0, len(profile))
	for k := range profile {
		names = append(names, k)
	}
	sort.Strings(names)
	tot := 0
	for _, k := range names {
		tot += profile[k]
	}
	x := h.r.Intn(tot)
	for _, k := range names {
		x -= profile[k]
		if x < 0 {
			return k
		}
	}
	return names[0]
}

type editCfg struct {
	prop    string
	seed    int64
	n       int // number of histories
	steps   int // max steps per history
	out     string
	gp      GenParams
	opt     ProjOpt
	observe bool // emit obs events for the twin after every step
}

// runs histories  [from, to)  into one trace file
func runEditHistories(cfg editCfg, from, to int, path string) (events int, ops map[string]int) {
	tw, err := newTraceWriter(path)
	if err != nil {
		fatal("%v", err)
	}
	defer tw.close()
	ops = map[string]int{}
	profile := editProfiles[cfg.prop]
	if profile == nil {
		profile = editProfiles["C03"]
	}
	for k := from; k < to; k++ {
		seed := cfg.seed*1000003 + int64(k)
		r := rand.New(rand.NewSource(seed))
		rand.Seed(seed)
		h := &hist{r: r, tw: tw, opt: cfg.opt, gp: cfg.gp, label: fmt.Sprintf("%s-s%d-h%d", cfg.prop, cfg.seed, k)}
		gp := cfg.gp
		if cfg.prop == "C17" {
			gp.PMulti = 0
		}
		if cfg.prop == "C05" && r.Intn(3) == 0 {
			gp.LenTies = true
		}
		if (cfg.prop == "C05" || cfg.prop == "C06" || cfg.prop == "C03" || cfg.prop == "C15") && r.Intn(5) == 0 {
			gp.PNegLen = 0.12 // negative branch lengths (neighbour-joining trees have them)
		}
		if (cfg.prop == "C06" || cfg.prop == "C03" || cfg.prop == "C15") && r.Intn(4) == 0 {
			gp.PSingle = 0.2 // chains of single-child nodes in the initial tree
		}
		s := genSTree(r, &gp)
		t, err := build(s)
		if err != nil {
			fatal("build: %v", err)
		}
		h.t = t
		h.proj()
		tw.emit(&Event{Ev: "reset", Case: h.label, Op: "Init", Obj: "a", Ok: true, Post: h.p, Args: map[string]interface{}{"seed": seed}})
		nsteps := 1 + r.Intn(cfg.steps)
		// half of the histories that start with chains of single-child nodes begin with a scripted pair: re-root below a
		// chain (its branches are reversed), then one of the calls that must cope with the reversed chain
		var script []opFn
		if gp.PSingle > 0 && r.Intn(2) == 0 {
			second := []opFn{opRemoveSingle, opRemoveSingle, opRemoveTips, opUnRoot, opClone, opReindex}[r.Intn(6)]
			script = []opFn{opRerootBelowSingle, second}
			if nsteps < 2 {
				nsteps = 2
			}
		}
		for st := 0; st < nsteps; st++ {
			var ev *Event
			if st < len(script) {
				ev = script[st](h)
			}
			for try := 0; try < 20 && ev == nil; try++ {
				name := h.pick(profile)
				ev = editOps[name](h)
			}
			if ev == nil {
				break
			}
			tw.emit(ev)
			ops[ev.Op]++
			if cfg.observe {
				if ob := h.observeTwin(); ob != nil {
					tw.emit(ob)
				}
			}
			if !ev.Ok || ev.Panic {
				break // policy 10: after an error the object is dead
			}
			if ev.Post != nil && !ev.Post.Sane {
				// the structure is no longer a tree (TLC will say which conjunct fails): the library may loop or call
				// os.Exit on it, the history stops here
				break
			}
		}
	}
	return tw.n, ops
}
