package main

import (
	"fmt"
	"math/rand"
	"strconv"
	"strings"

	"github.com/evolbioinfo/gotree/tree"
)

// STree: the harness' own nested description of a tree to build (an input, never a judgement).
type STree struct {
	Name string
	Len  int64 // units, NILU = absent (branch above this node)
	Sup  int64
	Pv   int64
	Cm   []string // node comments
	Ecm  []string // branch comments
	Ch   []*STree
}

// GenParams controls the random input distribution.
type GenParams struct {
	MinTips, MaxTips int
	Rooted           int     // 0 no, 1 yes, 2 random
	PMulti           float64 // probability that an inner node gets > 2 children
	LenMode          int     // 0 all present, 1 some absent, 2 all absent, 3 random among 0..2 ; see genLen
	PZeroLen         float64
	SupMode          int // 0 none, 1 all inner, 2 some inner, 3 random
	InnerNames       float64
	Comments         float64
	Prefix           string
	LenTies          bool // use a tiny palette so that ties between path lengths are frequent
	PNegLen          float64 // probability of a negative branch length (neighbour-joining trees have them); never -1, the absent value
	PSingle          float64 // probability that a non-root node gets a chain of 1-3 single-child nodes above it
}

func defaultGen() GenParams {
	return GenParams{MinTips: 3, MaxTips: 12, Rooted: 2, PMulti: 0.35, LenMode: 3, PZeroLen: 0.12, SupMode: 3, InnerNames: 0.1, Comments: 0.0, Prefix: "t"}
}

func genLen(r *rand.Rand, gp *GenParams, mode int) int64 {
	switch mode {
	case 2:
		return NILU
	case 1:
		if r.Float64() < 0.25 {
			return NILU
		}
	}
	if r.Float64() < gp.PZeroLen {
		return 0
	}
	if gp.PNegLen > 0 && r.Float64() < gp.PNegLen {
		// -1/32, -3/32, -5/32, -7/32: odd numerators, so that no merge of up to four branches (nor a half of one) is
		// exactly -1, the value gotree reads as "absent"
		return -(int64(2*r.Intn(4)+1) << 15)
	}
	if gp.LenTies {
		return int64(1+r.Intn(3)) << 16
	}
	// multiple of 2^-4, up to 4.0
	return int64(1+r.Intn(64)) << 16
}

func genSup(r *rand.Rand) int64 {
	// multiple of 1/64 in [0,1]
	return int64(r.Intn(65)) << 14
}

// genShape builds a random multifurcating shape over the given tip names.
func genShape(r *rand.Rand, gp *GenParams, names []string, isRoot bool, rooted bool) *STree {
	if len(names) == 1 {
		return &STree{Name: names[0], Len: NILU, Sup: NILU, Pv: NILU}
	}
	k := 2
	if isRoot && !rooted {
		k = 3
	}
	if !(isRoot && rooted) && r.Float64() < gp.PMulti {
		k += 1 + r.Intn(3)
	}
	if k > len(names) {
		k = len(names)
	}
	if isRoot && !rooted && len(names) < 3 {
		k = len(names)
	}
	// random partition into k non-empty groups
	perm := r.Perm(len(names))
	groups := make([][]string, k)
	for i, pi := range perm {
		g := i
		if i >= k {
			g = r.Intn(k)
		}
		groups[g] = append(groups[g], names[pi])
	}
	n := &STree{Len: NILU, Sup: NILU, Pv: NILU}
	for _, g := range groups {
		n.Ch = append(n.Ch, genShape(r, gp, g, false, rooted))
	}
	return n
}

func decorate(r *rand.Rand, gp *GenParams, n *STree, isRoot bool, lenMode, supMode int, ctr *int) {
	if !isRoot {
		n.Len = genLen(r, gp, lenMode)
		if len(n.Ch) > 0 {
			switch supMode {
			case 1:
				n.Sup = genSup(r)
			case 2:
				if r.Float64() < 0.6 {
					n.Sup = genSup(r)
				}
			}
			if n.Sup != NILU && r.Float64() < 0.1 {
				n.Pv = genSup(r)
			}
		}
	}
	if len(n.Ch) > 0 && n.Sup == NILU && r.Float64() < gp.InnerNames {
		*ctr++
		n.Name = fmt.Sprintf("N%s%d", gp.Prefix, *ctr)
	}
	if r.Float64() < gp.Comments {
		// comment texts with blanks at either end or inside (kept verbatim by writer and reader; seeded C01-8 trimmed them)
		n.Cm = append(n.Cm, fmt.Sprintf([]string{"c%d", "c%d", " c%d", "c%d ", " c %d "}[r.Intn(5)], r.Intn(100)))
		if r.Float64() < 0.3 {
			n.Cm = append(n.Cm, fmt.Sprintf("&k=%d", r.Intn(100)))
			if r.Float64() < 0.5 {
				// three comments: the slice built by successive appends has spare capacity
				n.Cm = append(n.Cm, fmt.Sprintf("third%d", r.Intn(100)))
			}
		}
	}
	if !isRoot && n.Len != NILU && r.Float64() < gp.Comments {
		n.Ecm = append(n.Ecm, fmt.Sprintf([]string{"e%d", "e%d", " e%d", "e%d ", " e %d "}[r.Intn(5)], r.Intn(100)))
	}
	for _, c := range n.Ch {
		decorate(r, gp, c, false, lenMode, supMode, ctr)
	}
}

func genSTree(r *rand.Rand, gp *GenParams) *STree {
	nt := gp.MinTips + r.Intn(gp.MaxTips-gp.MinTips+1)
	names := make([]string, nt)
	for i := range names {
		names[i] = fmt.Sprintf("%s%d", gp.Prefix, i+1)
	}
	rooted := gp.Rooted == 1 || (gp.Rooted == 2 && r.Intn(2) == 0)
	s := genShape(r, gp, names, true, rooted)
	lm, sm := gp.LenMode, gp.SupMode
	if lm == 3 {
		lm = []int{0, 0, 0, 1, 2}[r.Intn(5)]
	}
	if sm == 3 {
		sm = r.Intn(3)
	}
	if gp.PSingle > 0 {
		addSingles(r, s, gp.PSingle)
	}
	ctr := 0
	decorate(r, gp, s, true, lm, sm, &ctr)
	return s
}

// addSingles puts chains of 1-3 single-child inner nodes above some nodes (what re-rooting a rooted tree, or a writer of
// "knuckles", leaves behind): removeTip's degree-1 chain, RemoveSingleNodes, the writers and the indexes must cope
func addSingles(r *rand.Rand, n *STree, p float64) {
	for i, c := range n.Ch {
		addSingles(r, c, p)
		if r.Float64() < p {
			k := 1 + r.Intn(3)
			cur := c
			for j := 0; j < k; j++ {
				cur = &STree{Len: NILU, Sup: NILU, Pv: NILU, Ch: []*STree{cur}}
			}
			n.Ch[i] = cur
		}
	}
}

// build constructs the real tree through the public API, in the given child order, and finishes
// like the readers do (ReinitIndexes).
func build(s *STree) (*tree.Tree, error) {
	t := tree.NewTree()
	var rec func(s *STree, parent *tree.Node) *tree.Node
	rec = func(s *STree, parent *tree.Node) *tree.Node {
		n := t.NewNode()
		n.SetName(s.Name)
		for _, c := range s.Cm {
			n.AddComment(c)
		}
		if parent != nil {
			e := t.ConnectNodes(parent, n)
			if s.Len != NILU {
				e.SetLength(fromUnits(s.Len))
			}
			if s.Sup != NILU {
				e.SetSupport(fromUnits(s.Sup))
			}
			if s.Pv != NILU {
				e.SetPValue(fromUnits(s.Pv))
			}
			for _, c := range s.Ecm {
				e.AddComment(c)
			}
		}
		for _, c := range s.Ch {
			rec(c, n)
		}
		return n
	}
	root := rec(s, nil)
	t.SetRoot(root)
	if err := t.ReinitIndexes(); err != nil {
		return nil, err
	}
	return t, nil
}

// newick text of an STree by the harness' own writer (used to feed parsers; values via units)
func (s *STree) text() string {
	var sb strings.Builder
	var rec func(s *STree, root bool)
	rec = func(s *STree, root bool) {
		if len(s.Ch) > 0 {
			sb.WriteByte('(')
			for i, c := range s.Ch {
				if i > 0 {
					sb.WriteByte(',')
				}
				rec(c, false)
			}
			sb.WriteByte(')')
		}
		if s.Name != "" {
			sb.WriteString(s.Name)
		} else if s.Sup != NILU && len(s.Ch) > 0 && !root {
			sb.WriteString(fmtUnits(s.Sup))
			if s.Pv != NILU {
				sb.WriteString("/" + fmtUnits(s.Pv))
			}
		}
		for _, c := range s.Cm {
			sb.WriteString("[" + c + "]")
		}
		if !root && s.Len != NILU {
			sb.WriteString(":" + fmtUnits(s.Len))
			for _, c := range s.Ecm {
				sb.WriteString("[" + c + "]")
			}
		}
	}
	rec(s, true)
	sb.WriteByte(';')
	return sb.String()
}

func fmtUnits(u int64) string {
	return strconv.FormatFloat(fromUnits(u), 'f', -1, 64)
}

func (s *STree) tipNames() []string {
	if len(s.Ch) == 0 {
		return []string{s.Name}
	}
	out := []string{}
	for _, c := range s.Ch {
		out = append(out, c.tipNames()...)
	}
	return out
}
