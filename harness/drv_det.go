package main

import (
	"github.com/evolbioinfo/goalign/io/fasta"
	"github.com/evolbioinfo/gotree/acr"
	"github.com/evolbioinfo/gotree/asr"
	"github.com/evolbioinfo/gotree/io/newick"
	"github.com/evolbioinfo/gotree/tree"
	"crypto/sha256"
	"encoding/hex"
	"encoding/json"
	"flag"
	"fmt"
	"math/rand"
	"os"
	"path/filepath"
	"sort"
	"strings"
)

// C18: every command template is run several times, each time in a new process (Go re-randomises map iteration
// on every range and per process), with the same input, options and seed; outputs are logged as hashes.
// TraceDet.tla checks that the same key always shows the same output (record order free when threads > 1).

type detTemplate struct {
	name    string
	args    []string // @T trees, @R ref tree, @B boot trees, @A nucleotide alignment, @P protein alignment, @S states, @M name map, @L tip list, @G groups, @O1 @O2 output files
	threads bool     // also run with several threads (record order may differ)
	stdin   string   // placeholder of the file fed on stdin ("" = none)
}

var detTemplates = []detTemplate{
	{"generate uniformtree", []string{"generate", "uniformtree", "-l", "12", "-n", "3"}, false, ""},
	{"generate uniformtree rooted", []string{"generate", "uniformtree", "-l", "9", "-n", "3", "-r"}, false, ""},
	{"generate yuletree", []string{"generate", "yuletree", "-l", "12", "-n", "3"}, false, ""},
	{"generate balancedtree", []string{"generate", "balancedtree", "-d", "3", "-n", "2"}, false, ""},
	{"generate caterpillartree", []string{"generate", "caterpillartree", "-l", "9", "-n", "2"}, false, ""},
	{"generate startree", []string{"generate", "startree", "-l", "7", "-n", "2"}, false, ""},
	{"generate topologies", []string{"generate", "topologies", "-l", "5"}, false, ""},
	{"sample", []string{"sample", "-i", "@B", "-n", "4"}, false, ""},
	{"sample replace", []string{"sample", "-i", "@B", "-n", "5", "--replace"}, false, ""},
	{"shuffletips", []string{"shuffletips", "-i", "@T"}, false, ""},
	{"rotate rand", []string{"rotate", "rand", "-i", "@T"}, false, ""},
	{"rotate sort", []string{"rotate", "sort", "-i", "@T"}, false, ""},
	{"prune random", []string{"prune", "-i", "@T", "--random", "3"}, false, ""},
	{"prune tipfile", []string{"prune", "-i", "@T", "-f", "@L"}, false, ""},
	{"prune revert", []string{"prune", "-i", "@T", "-r", "t1", "t2", "t3", "t5"}, false, ""},
	{"brlen setrand", []string{"brlen", "setrand", "-i", "@T"}, false, ""},
	{"support setrand", []string{"support", "setrand", "-i", "@T"}, false, ""},
	{"resolve", []string{"resolve", "-i", "@T"}, false, ""},
	{"compute consensus", []string{"compute", "consensus", "-i", "@B", "-f", "0.5"}, false, ""},
	{"compute consensus strict", []string{"compute", "consensus", "-i", "@B", "-f", "1"}, false, ""},
	{"compute support classical", []string{"compute", "support", "classical", "-i", "@R", "-b", "@B", "-o", "@O1", "-l", "@O2"}, true, ""},
	{"compute support booster", []string{"compute", "support", "booster", "-i", "@R", "-b", "@B", "-o", "@O1", "-l", "@O2"}, true, ""},
	{"compute support booster moved", []string{"compute", "support", "booster", "-i", "@R", "-b", "@B", "-o", "@O1", "-l", "@O2", "--moved-taxa", "--per-branches"}, true, ""},
	{"compare trees", []string{"compare", "trees", "-i", "@R", "-c", "@B"}, true, ""},
	{"compare trees tips", []string{"compare", "trees", "-i", "@R", "-c", "@B", "-l", "--rf"}, true, ""},
	{"compare trees weighted", []string{"compare", "trees", "-i", "@R", "-c", "@B", "--weighted"}, true, ""},
	{"compare edges", []string{"compare", "edges", "-i", "@R", "-c", "@B"}, false, ""},
	{"compare edges transfer", []string{"compare", "edges", "-i", "@R", "-c", "@B", "-m"}, false, ""},
	{"compare tips", []string{"compare", "tips", "-i", "@R", "-c", "@B"}, false, ""},
	{"compare tips list", []string{"compare", "tips", "-i", "@R", "-f", "@L3"}, false, ""},
	{"matrix", []string{"matrix", "-i", "@T"}, false, ""},
	{"matrix avg", []string{"matrix", "-i", "@B", "--avg"}, false, ""},
	{"stats", []string{"stats", "-i", "@T"}, false, ""},
	{"stats edges", []string{"stats", "edges", "-i", "@T"}, false, ""},
	{"stats nodes", []string{"stats", "nodes", "-i", "@T"}, false, ""},
	{"stats tips", []string{"stats", "tips", "-i", "@T"}, false, ""},
	{"stats splits", []string{"stats", "splits", "-i", "@T"}, false, ""},
	{"stats rooted", []string{"stats", "rooted", "-i", "@T"}, false, ""},
	{"stats monophyletic", []string{"stats", "monophyletic", "-i", "@T", "-l", "@L"}, false, ""},
	{"reroot midpoint", []string{"reroot", "midpoint", "-i", "@T"}, false, ""},
	{"reroot outgroup", []string{"reroot", "outgroup", "-i", "@T", "t1"}, false, ""},
	{"reroot outgroup remove", []string{"reroot", "outgroup", "-i", "@T", "-r", "t2"}, false, ""},
	{"unroot", []string{"unroot", "-i", "@T"}, false, ""},
	{"collapse length", []string{"collapse", "length", "-i", "@T", "-l", "0.5"}, false, ""},
	{"collapse support", []string{"collapse", "support", "-i", "@T", "-s", "0.5"}, false, ""},
	{"collapse depth", []string{"collapse", "depth", "-i", "@T", "-m", "2", "-M", "3"}, false, ""},
	{"collapse single", []string{"collapse", "single", "-i", "@T"}, false, ""},
	{"rename auto", []string{"rename", "-i", "@T", "-a", "-m", "@O1", "-l", "5"}, false, ""},
	{"rename auto internal", []string{"rename", "-i", "@T", "-a", "--internal", "-m", "@O1", "-l", "6"}, false, ""},
	{"rename map", []string{"rename", "-i", "@T", "-m", "@M"}, false, ""},
	{"rename map chain", []string{"rename", "-i", "@T", "-m", "@M2"}, false, ""},
	{"rename map chain revert", []string{"rename", "-i", "@T", "-m", "@M2", "-r"}, false, ""},
	{"reformat nexus translate numeric", []string{"reformat", "nexus", "-i", "@T3", "--translate"}, false, ""},
	{"rename regexp", []string{"rename", "-i", "@T", "-e", "t(\\d)", "-b", "x$1", "-m", "@O1"}, false, ""},
	{"acr acctran", []string{"acr", "-i", "@R", "--states", "@S", "--algo", "acctran", "--out-states", "@O1", "--out-steps", "@O2"}, false, ""},
	{"acr deltran", []string{"acr", "-i", "@R", "--states", "@S", "--algo", "deltran", "--out-states", "@O1", "--out-steps", "@O2"}, false, ""},
	{"acr downpass random", []string{"acr", "-i", "@R", "--states", "@S", "--algo", "downpass", "--random-resolve", "--out-states", "@O1", "--out-steps", "@O2"}, false, ""},
	{"asr nucleotides", []string{"asr", "-i", "@R", "-a", "@A", "--algo", "downpass", "--log", "@O1"}, false, ""},
	{"asr proteins", []string{"asr", "-i", "@R", "-a", "@P", "--algo", "downpass", "--log", "@O1"}, false, ""},
	{"asr proteins acctran random", []string{"asr", "-i", "@R", "-a", "@P", "--algo", "acctran", "--random-resolve", "--log", "@O1"}, false, ""},
	{"compute mutations", []string{"compute", "mutations", "-i", "@N", "-a", "@A"}, false, ""},
	{"nni", []string{"nni", "-i", "@R"}, false, ""},
	{"ltt", []string{"ltt", "-i", "@T"}, false, ""},
	{"labels", []string{"labels", "-i", "@T", "--internal"}, false, ""},
	{"reformat nexus", []string{"reformat", "nexus", "-i", "@T"}, false, ""},
	{"reformat nexus translate", []string{"reformat", "nexus", "-i", "@T", "--translate"}, false, ""},
	{"reformat phyloxml", []string{"reformat", "phyloxml", "-i", "@T"}, false, ""},
	{"reformat newick", []string{"reformat", "newick", "-i", "@T"}, false, ""},
	{"subtree", []string{"subtree", "-i", "@N", "-n", "clade1"}, false, ""},
	{"divide", []string{"divide", "-i", "@T", "-o", "@O1"}, false, ""},
	{"merge", []string{"merge", "-i", "@R2", "-c", "@R3"}, false, ""},
	{"graft", []string{"graft", "-i", "@R", "-c", "@R3", "-l", "t1"}, false, ""},
	{"annotate", []string{"annotate", "-i", "@R", "-c", "@N"}, false, ""},
	{"draw text", []string{"draw", "text", "-i", "@R", "-w", "40"}, false, ""},
	{"draw svg", []string{"draw", "svg", "-i", "@R", "-o", "@O1"}, false, ""},
	{"comment clear", []string{"comment", "clear", "-i", "@T"}, false, ""},
	{"brlen scale", []string{"brlen", "scale", "-i", "@T", "-f", "3"}, false, ""},
	{"brlen round", []string{"brlen", "round", "-i", "@T", "-p", "1"}, false, ""},
	{"brlen clear", []string{"brlen", "clear", "-i", "@T"}, false, ""},
	{"brlen cut", []string{"brlen", "cut", "-i", "@T", "-l", "0.6"}, false, ""},
	{"brlen setmin", []string{"brlen", "setmin", "-i", "@T", "-l", "0.5"}, false, ""},
	{"support clear", []string{"support", "clear", "-i", "@T"}, false, ""},
	{"support round", []string{"support", "round", "-i", "@T", "-p", "1"}, false, ""},
	{"repopulate", []string{"repopulate", "-i", "@T", "-g", "@G"}, false, ""},
	{"compute edgetrees", []string{"compute", "edgetrees", "-i", "@R"}, false, ""},
	{"compute bipartitiontree", []string{"compute", "bipartitiontree", "-i", "@R", "t1", "t2", "t3"}, false, ""},
	{"collapse clade", []string{"collapse", "clade", "-i", "@R", "-n", "cl", "t1", "t2"}, false, ""},
	{"compute roccurve", []string{"compute", "roccurve", "-i", "@T", "-r", "@R"}, false, ""},
	{"stdin reformat", []string{"reformat", "newick"}, false, "@T"},
}

func detInputs(dir string, seed int64) map[string]string { return detInputsN(dir, seed, 8) }

// the same set of input files on trees of ntips >= 8 tips t1..tN
func detInputsN(dir string, seed int64, ntips int) map[string]string {
	r := rand.New(rand.NewSource(seed))
	gp := defaultGen()
	gp.InnerNames = 0
	gp.PMulti = 0.25
	names := []string{} // the command templates name the tips t1..t8
	for i := 1; i <= ntips; i++ {
		names = append(names, fmt.Sprintf("t%d", i))
	}
	coll := collection(r, &gp, names, 13, false)
	w := func(name, content string) string {
		p := filepath.Join(dir, name)
		writeFile(p, content)
		return p
	}
	var tb, bb strings.Builder
	for i, s := range coll[1:] {
		// supports on inner branches
		var dec func(n *STree, root bool)
		dec = func(n *STree, root bool) {
			if !root && len(n.Ch) > 0 {
				n.Sup = genSup(r)
			}
			for _, c := range n.Ch {
				dec(c, false)
			}
		}
		dec(s, true)
		bb.WriteString(s.text() + "\n")
		if i < 6 {
			tb.WriteString(s.text() + "\n")
		}
	}
	in := map[string]string{}
	in["@T"] = w("trees.nw", tb.String())
	in["@B"] = w("boot.nw", bb.String())
	in["@R"] = w("ref.nw", coll[0].text()+"\n")
	named := coll[0].clone()
	k := 0
	var nm func(n *STree, root bool)
	nm = func(n *STree, root bool) {
		if !root && len(n.Ch) > 0 {
			k++
			n.Name = fmt.Sprintf("clade%d", k)
			n.Sup = NILU
		}
		for _, c := range n.Ch {
			nm(c, false)
		}
	}
	nm(named, true)
	in["@N"] = w("named.nw", named.text()+"\n")
	in["@R2"] = w("rooted1.nw", "((t1:1,t2:2):1,(t3:1,t4:1):2);\n")
	in["@R3"] = w("rooted2.nw", "((u1:1,u2:2):1,(u3:1,(u4:1,u5:1):1):2);\n")
	nuc := "ACGTRYN-"
	aa := "ARNDCQEGHILKMFPSTWYVX"
	var ab, pb, sb, mb, lb strings.Builder
	for i, n := range names {
		ab.WriteString(">" + n + "\n")
		pb.WriteString(">" + n + "\n")
		for j := 0; j < 24; j++ {
			ab.WriteByte(nuc[r.Intn(len(nuc)-2+2*(j%2))%len(nuc)])
			if j%3 == 0 || r.Intn(4) == 0 {
				pb.WriteByte('X')
			} else {
				pb.WriteByte(aa[(i/3+j)%len(aa)])
			}
		}
		ab.WriteString("\n")
		pb.WriteString("\n")
		sb.WriteString(fmt.Sprintf("%s\t%s\n", n, []string{"A", "B", "C"}[r.Intn(3)]))
		mb.WriteString(fmt.Sprintf("%s\tname%d\n", n, i))
		if i%3 == 0 {
			lb.WriteString(n + "\n")
		}
	}
	in["@A"] = w("aln.fa", ab.String())
	in["@P"] = w("prot.fa", pb.String())
	in["@S"] = w("states.txt", sb.String())
	in["@M"] = w("map.txt", mb.String())
	in["@L"] = w("tips.txt", lb.String())
	in["@G"] = w("groups.txt", "t1,n1,n2\nt4,n3\n")
	// a tip list with names the trees do not have (in another order than any sort)
	in["@L3"] = w("tips3.txt", "zeta\nt2\nalpha\nt5\nomega\nbeta\nkappa\nt1\ndelta\n")
	// a map whose new names are other entries' old names (chains and cycles)
	var cb strings.Builder
	for i, n := range names {
		cb.WriteString(fmt.Sprintf("%s\t%s\n", n, names[(i+1)%len(names)]))
	}
	in["@M2"] = w("mapchain.txt", cb.String())
	// tips named with small integers (the translate table of the Nexus writer renames through numbers)
	in["@T3"] = w("numeric.nw", "((3:1,1:1):1,(2:1,(5:1,4:1):1):1,6:1);\n((2:1,1:1):1,(3:1,(6:1,4:1):1):1,5:1);\n")
	return in
}

func hashStr(s string) string {
	h := sha256.Sum256([]byte(s))
	return hex.EncodeToString(h[:8])
}

func sortedLines(s string) string {
	l := strings.Split(s, "\n")
	sort.Strings(l)
	return strings.Join(l, "\n")
}

func init() {
	extraDrivers["det"] = func(fs *flag.FlagSet, args []string) {
		bin := fs.String("gotree", "", "")
		out := fs.String("out", "trace.ndjson", "")
		seed := fs.Int64("seed", 1, "")
		reps := fs.Int("reps", 3, "")
		shard := fs.Int("shard", 0, "")
		nshards := fs.Int("nshards", 1, "")
		fs.Parse(args)
		base := filepath.Dir(*out)
		indir, err := os.MkdirTemp(base, "detin")
		if err != nil {
			fatal("%v", err)
		}
		defer os.RemoveAll(indir)
		in := detInputs(indir, *seed)
		f, err := os.Create(*out)
		if err != nil {
			fatal("%v", err)
		}
		defer f.Close()
		n, okruns := 0, 0
		for ti, tp := range detTemplates {
			if ti%*nshards != *shard {
				continue
			}
			thr := []int{1}
			if tp.threads {
				thr = append(thr, 4)
			}
			for _, th := range thr {
				for _, sd := range []int64{*seed, *seed + 17} {
					for rep := 0; rep < *reps; rep++ {
						rd, err := os.MkdirTemp(base, "detrun")
						if err != nil {
							fatal("%v", err)
						}
						a := []string{}
						for _, x := range tp.args {
							switch {
							case x == "@O1":
								a = append(a, filepath.Join(rd, "out1"))
							case x == "@O2":
								a = append(a, filepath.Join(rd, "out2"))
							case strings.HasPrefix(x, "@"):
								a = append(a, in[x])
							default:
								a = append(a, x)
							}
						}
						a = append(a, "--seed", fmt.Sprint(sd), "-t", fmt.Sprint(th))
						stdin := ""
						if tp.stdin != "" {
							b, _ := os.ReadFile(in[tp.stdin])
							stdin = string(b)
						}
						ro := runGotreeIn(*bin, rd, a, stdin)
						os.RemoveAll(rd)
						// the names of the scratch directories are not part of the input
						ro.stdout = strings.ReplaceAll(strings.ReplaceAll(ro.stdout, rd, "<run>"), indir, "<in>")
						// the progress lines of the support commands go to stderr and are not output
						full := fmt.Sprintf("rc=%d\n%s\nFILES\n%s", ro.rc, ro.stdout, ro.files)
						ev := map[string]interface{}{"ev": "case", "kind": "DetRun", "case": fmt.Sprintf("C18-%s-s%d-t%d", strings.ReplaceAll(tp.name, " ", "_"), sd, th),
							"key": fmt.Sprintf("%s|seed=%d|threads=%s", tp.name, sd, map[bool]string{true: "1", false: ">1"}[th == 1]),
							"cmd": tp.name, "threads": th, "seed": sd, "rep": rep, "rc": ro.rc, "hung": ro.hung,
							"exact": hashStr(full), "records": hashStr(sortedLines(ro.stdout) + "\nFILES\n" + ro.filesSorted),
							"detail": trunc(ro.stdout)}
						b, _ := json.Marshal(ev)
						f.Write(b)
						f.Write([]byte("\n"))
						n++
						if ro.rc == 0 {
							okruns++
						}
					}
				}
			}
		}
		// library counterparts, repeated inside this process (map iteration is re-randomised at every range)
		if *shard == 0 {
			for _, lt := range libTemplates {
				for _, sd := range []int64{*seed, *seed + 17} {
					for rep := 0; rep < *reps*4; rep++ {
						outp, err := lt.run(in, sd)
						if err != nil {
							outp = "error: " + err.Error()
						}
						ev := map[string]interface{}{"ev": "case", "kind": "DetRun", "case": fmt.Sprintf("C18-%s-s%d-t1", strings.ReplaceAll(lt.name, " ", "_"), sd),
							"key": fmt.Sprintf("%s|seed=%d|threads=1", lt.name, sd), "cmd": lt.name, "threads": 1, "seed": sd, "rep": rep, "rc": 0, "hung": false,
							"exact": hashStr(outp), "records": hashStr(sortedLines(outp)), "detail": trunc(outp)}
						b, _ := json.Marshal(ev)
						f.Write(b)
						f.Write([]byte("\n"))
						n++
					}
				}
			}
		}
		summary(map[string]interface{}{"events": n, "templates": len(detTemplates) + len(libTemplates), "runs_rc0": okruns})
	}
}

type libTemplate struct {
	name string
	run  func(in map[string]string, seed int64) (string, error)
}

func readTreesFile(path string) ([]*tree.Tree, error) {
	b, err := os.ReadFile(path)
	if err != nil {
		return nil, err
	}
	var ts []*tree.Tree
	for _, ln := range strings.Split(strings.TrimSpace(string(b)), "\n") {
		t, err := newick.NewParser(strings.NewReader(ln)).Parse()
		if err != nil {
			return nil, err
		}
		ts = append(ts, t)
	}
	return ts, nil
}

var libTemplates = []libTemplate{
	{"lib Consensus", func(in map[string]string, seed int64) (string, error) {
		ts, err := readTreesFile(in["@B"])
		if err != nil {
			return "", err
		}
		c, err := tree.Consensus(feed(ts), 0.5)
		if err != nil {
			return "", err
		}
		return c.Newick(), nil
	}},
	{"lib ParsimonyAsr protein", func(in map[string]string, seed int64) (string, error) {
		ts, err := readTreesFile(in["@R"])
		if err != nil {
			return "", err
		}
		fa, err := os.Open(in["@P"])
		if err != nil {
			return "", err
		}
		defer fa.Close()
		a, err := fasta.NewParser(fa).Parse()
		if err != nil {
			return "", err
		}
		rand.Seed(seed)
		steps, err := asr.ParsimonyAsr(ts[0], a, asr.ALGO_DOWNPASS, false)
		if err != nil {
			return "", err
		}
		return fmt.Sprint(steps) + ts[0].Newick(), nil
	}},
	{"lib ParsimonyAcr random resolve", func(in map[string]string, seed int64) (string, error) {
		ts, err := readTreesFile(in["@R"])
		if err != nil {
			return "", err
		}
		st := map[string]string{}
		for i, n := range ts[0].AllTipNames() {
			st[n] = []string{"A", "B", "C"}[i%3]
		}
		rand.Seed(seed)
		m, steps, err := acr.ParsimonyAcr(ts[0], st, acr.ALGO_DOWNPASS, true)
		if err != nil {
			return "", err
		}
		keys := []string{}
		for k, v := range m {
			keys = append(keys, k+"="+v)
		}
		sort.Strings(keys)
		return fmt.Sprint(steps, keys) + ts[0].Newick(), nil
	}},
	{"lib generators", func(in map[string]string, seed int64) (string, error) {
		rand.Seed(seed)
		a, _ := tree.RandomUniformBinaryTree(9, true)
		b, _ := tree.RandomYuleBinaryTree(9, false)
		return a.Newick() + b.Newick(), nil
	}},
	{"lib edits on indexed trees", func(in map[string]string, seed int64) (string, error) {
		// the editing calls on trees whose indexes are initialised (as after ReinitIndexes): nothing may depend on the
		// iteration order of the name index
		ts, err := readTreesFile(in["@B"])
		if err != nil {
			return "", err
		}
		var sb strings.Builder
		rand.Seed(seed)
		for i, t := range ts {
			if err := t.ReinitIndexes(); err != nil {
				return "", err
			}
			switch i % 6 {
			case 0:
				err = t.RemoveTips(false, "t2", "t4", "t6", "t8", "t1")
			case 1:
				err = t.RemoveTips(true, "t2", "t4", "t6", "t8", "t1")
			case 2:
				err = t.RerootOutGroup(false, false, "t3", "t5")
			case 3:
				err = t.InsertIdenticalTips([][]string{{"t1", "x1", "x2"}, {"t5", "x3"}, {"x3", "x4"}})
			case 4:
				t.CollapseShortBranches(0.5, false, false)
				t.Resolve()
			default:
				err = t.RerootMidPoint()
			}
			if err != nil {
				sb.WriteString("error: " + err.Error() + "\n")
				continue
			}
			sb.WriteString(t.Newick() + "\n")
			c := t.Clone()
			c.UnRoot()
			sb.WriteString(c.Newick() + "\n")
		}
		return sb.String(), nil
	}},
	{"lib Rename", func(in map[string]string, seed int64) (string, error) {
		ts, err := readTreesFile(in["@T"])
		if err != nil {
			return "", err
		}
		m := map[string]string{}
		all := ts[0].AllTipNames()
		for i, n := range all {
			m[n] = all[(i+1)%len(all)]
		}
		if err := ts[0].Rename(m); err != nil {
			return "", err
		}
		return ts[0].Newick(), nil
	}},
}
