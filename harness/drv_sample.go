package main

import (
	"flag"
	"fmt"
	"math/rand"
	"os"
	"path/filepath"
	"regexp"
	"sort"
	"strconv"
	"strings"

	gcmd "github.com/evolbioinfo/gotree/cmd"
	"github.com/evolbioinfo/gotree/io/newick"
	"github.com/evolbioinfo/gotree/tree"
)

// C20: random selections. Every run records the draws reported by the verif hooks (range, value) and the outcome;
// TLC replays the draws through the modelled machine (SampleProps). A second driver (sample-stats) produces
// outcome frequencies over many seeds for the statistical fallback.

type drawRec struct {
	N int `json:"n"`
	V int `json:"v"`
}

var drawLog []drawRec
var drawSites map[string]int

func captureDraws() {
	drawLog = []drawRec{}
	drawSites = map[string]int{}
	f := func(site string, n int, v int) {
		drawLog = append(drawLog, drawRec{n, v})
		drawSites[site]++
	}
	tree.VerifDraw = f
	gcmd.VerifDraw = f
}

// runs a gotree command in process (cobra), all options given explicitly
func runCLI(args ...string) error {
	gcmd.RootCmd.SetArgs(args)
	gcmd.RootCmd.SilenceUsage = true
	gcmd.RootCmd.SilenceErrors = true
	return gcmd.RootCmd.Execute()
}

var reX = regexp.MustCompile(`x(\d+)`)

func writeFile(path, content string) {
	if err := os.WriteFile(path, []byte(content), 0644); err != nil {
		fatal("%v", err)
	}
}

func sampleTreesRun(dir string, n, k int, replace bool, seed int64) (outcome []int, err error) {
	in := filepath.Join(dir, "in.nw")
	out := filepath.Join(dir, "out.nw")
	var sb strings.Builder
	for i := 0; i < n; i++ {
		fmt.Fprintf(&sb, "(a,b,(c,x%d));\n", i)
	}
	writeFile(in, sb.String())
	os.Remove(out)
	args := []string{"sample", "-i", in, "-o", out, "-n", strconv.Itoa(k), "--seed", strconv.FormatInt(seed, 10), "--format", "newick"}
	if replace {
		args = append(args, "--replace=true")
	} else {
		args = append(args, "--replace=false")
	}
	captureDraws()
	if err = runCLI(args...); err != nil {
		return nil, err
	}
	b, err := os.ReadFile(out)
	if err != nil {
		return nil, err
	}
	outcome = []int{}
	for _, ln := range strings.Split(strings.TrimSpace(string(b)), "\n") {
		m := reX.FindStringSubmatch(ln)
		if m == nil {
			outcome = append(outcome, -1)
			continue
		}
		id, _ := strconv.Atoi(m[1])
		outcome = append(outcome, id)
	}
	return outcome, nil
}

// prune --random k : the removed tips, as element numbers in the order the command enumerates the tips
func pruneRandomRun(dir string, nw string, k int, seed int64) (outcome []int, n int, err error) {
	in := filepath.Join(dir, "pin.nw")
	out := filepath.Join(dir, "pout.nw")
	writeFile(in, nw+"\n")
	os.Remove(out)
	t0, perr := newick.NewParser(strings.NewReader(nw)).Parse()
	if perr != nil {
		return nil, 0, perr
	}
	order := []string{}
	for _, tp := range t0.Tips() {
		order = append(order, tp.Name())
	}
	captureDraws()
	if err = runCLI("prune", "-i", in, "-o", out, "--random", strconv.Itoa(k), "--seed", strconv.FormatInt(seed, 10),
		"--format", "newick", "--revert=false", "-c", "none", "-f", "none"); err != nil {
		return nil, len(order), err
	}
	b, rerr := os.ReadFile(out)
	if rerr != nil {
		return nil, len(order), rerr
	}
	t1, perr := newick.NewParser(strings.NewReader(strings.TrimSpace(string(b)))).Parse()
	if perr != nil {
		return nil, len(order), perr
	}
	left := map[string]bool{}
	for _, tp := range t1.Tips() {
		left[tp.Name()] = true
	}
	outcome = []int{}
	for i, nm := range order {
		if !left[nm] {
			outcome = append(outcome, i)
		}
	}
	return outcome, len(order), nil
}

func tipNum(name string) int {
	v, err := strconv.Atoi(strings.TrimPrefix(name, "Tip"))
	if err != nil {
		return -1
	}
	return v
}

// clusters of a generated tree: rooted = tips below every non-root node; unrooted = for every branch the side
// that does not contain Tip0
func clustersOf(t *tree.Tree, rooted bool) [][]int {
	p := project(t, ProjOpt{})
	all := p.tipNames()
	out := [][]int{}
	for e := range p.E {
		side := p.sideOf(e + 1)
		if !rooted {
			has0 := false
			for _, s := range side {
				if s == "Tip0" {
					has0 = true
				}
			}
			if has0 {
				side = complement(all, side)
			}
		}
		c := []int{}
		for _, s := range side {
			c = append(c, tipNum(s))
		}
		sort.Ints(c)
		out = append(out, c)
	}
	return out
}

func drawsCopy() []drawRec { return append([]drawRec{}, drawLog...) }

func drawsEvent(label, algo string, n, k int, seed int64, asset bool, what string, run func(ev *CEvent) (interface{}, error)) *CEvent {
	ev := &CEvent{Kind: "Draws", Prop: "C20", Case: label,
		Args: map[string]interface{}{"algo": algo, "n": n, "k": k, "seed": seed, "asset": asset, "what": what}}
	ev.guard(calcTimeout, func() error {
		oc, err := run(ev)
		if err != nil {
			return err
		}
		ev.Res = map[string]interface{}{"draws": drawsCopy(), "outcome": oc}
		return nil
	})
	return ev
}

func caseC20(r *rand.Rand, cw *CalcWriter, label string, dir string, seed int64) {
	switch r.Intn(6) {
	case 0: // sample without replacement
		n := 1 + r.Intn(8)
		k := 1 + r.Intn(n+2)
		if r.Intn(5) == 0 { // "whatever the input size": a long file now and then
			n = 20 + r.Intn(40)
			k = 1 + r.Intn(n)
		}
		cw.emit(drawsEvent(label, "reservoir", n, k, seed, false, "sample", func(ev *CEvent) (interface{}, error) {
			return sampleTreesRun(dir, n, k, false, seed)
		}))
	case 1: // with replacement
		n := 1 + r.Intn(6)
		k := 1 + r.Intn(4)
		if r.Intn(5) == 0 {
			n = 15 + r.Intn(30)
			k = 1 + r.Intn(12)
		}
		cw.emit(drawsEvent(label, "replace", n, k, seed, false, "sample --replace", func(ev *CEvent) (interface{}, error) {
			return sampleTreesRun(dir, n, k, true, seed)
		}))
	case 2: // prune --random
		gp := calcGen(10)
		s := genSTree(r, &gp)
		nw := s.text()
		nt := len(s.tipNames())
		k := 1 + r.Intn(maxi(1, nt-3))
		var n int
		ev := drawsEvent(label, "reservoir", nt, k, seed, true, "prune --random", func(ev *CEvent) (interface{}, error) {
			oc, nn, err := pruneRandomRun(dir, nw, k, seed)
			n = nn
			return oc, err
		})
		ev.Args["n"] = n
		cw.emit(ev)
	case 3: // RotateNeighbors of one node
		gp := calcGen(10)
		gp.PMulti = 0.6
		t, _ := build(genSTree(r, &gp))
		var inner []*tree.Node
		for _, nd := range t.Nodes() {
			if nd.Nneigh() >= 2 {
				inner = append(inner, nd)
			}
		}
		nd := inner[r.Intn(len(inner))]
		before := append([]*tree.Node{}, nd.Neigh()...)
		d := len(before)
		cw.emit(drawsEvent(label, "rotate", d, 0, seed, false, "RotateNeighbors", func(ev *CEvent) (interface{}, error) {
			rand.Seed(seed)
			captureDraws()
			nd.RotateNeighbors()
			oc := []int{}
			for _, m := range nd.Neigh() {
				pos := -1
				for i, b := range before {
					if b == m {
						pos = i
					}
				}
				oc = append(oc, pos)
			}
			return oc, nil
		}))
	case 4: // ShuffleTips
		gp := calcGen(9)
		t, _ := build(genSTree(r, &gp))
		tips := t.Tips()
		names := t.AllTipNames()
		before := []string{}
		for _, tp := range tips {
			before = append(before, tp.Name())
		}
		ev := &CEvent{Kind: "Shuffle", Prop: "C20", Case: label, Args: map[string]interface{}{"seed": seed}}
		ev.guard(calcTimeout, func() error {
			rand.Seed(seed)
			captureDraws()
			t.ShuffleTips()
			after := []string{}
			for _, tp := range tips {
				after = append(after, tp.Name())
			}
			perm := []int{}
			for _, d := range drawLog {
				perm = append(perm, d.V)
			}
			ev.Res = map[string]interface{}{"before": before, "names": names, "after": after, "perm": perm}
			return nil
		})
		cw.emit(ev)
	default: // uniform tree
		rooted := r.Intn(2) == 0
		n := 3 + r.Intn(8)
		if r.Intn(6) == 0 {
			n = 15 + r.Intn(20)
		}
		algo := "utree"
		if rooted {
			algo = "rtree"
		}
		cw.emit(drawsEvent(label, algo, n, 0, seed, true, "RandomUniformBinaryTree", func(ev *CEvent) (interface{}, error) {
			rand.Seed(seed)
			captureDraws()
			t, err := tree.RandomUniformBinaryTree(n, rooted)
			if err != nil {
				return nil, err
			}
			return clustersOf(t, rooted), nil
		}))
	}
}

func init() {
	extraDrivers["sample"] = func(fs *flag.FlagSet, args []string) {
		seed := fs.Int64("seed", 1, "")
		from := fs.Int("from", 0, "")
		to := fs.Int("to", 10, "")
		out := fs.String("out", "trace.ndjson", "")
		fs.Parse(args)
		dir, err := os.MkdirTemp(filepath.Dir(*out), "smp")
		if err != nil {
			fatal("%v", err)
		}
		defer os.RemoveAll(dir)
		cw := newCalcWriter(*out)
		restore := silenceStderr()
		for k := *from; k < *to; k++ {
			s := *seed*1000003 + int64(k)
			r := rand.New(rand.NewSource(s))
			caseC20(r, cw, fmt.Sprintf("C20-s%d-k%d", *seed, k), dir, s)
		}
		restore()
		cw.close()
		summary(map[string]interface{}{"events": cw.n, "cases": *to - *from, "kinds": cw.k})
	}
	// outcome frequencies over many seeds, for the statistical fallback
	extraDrivers["sample-stats"] = func(fs *flag.FlagSet, args []string) {
		seed := fs.Int64("seed", 1, "")
		runs := fs.Int("runs", 20000, "")
		cell := fs.String("cell", "", "one cell name (all when empty)")
		fs.Parse(args)
		dir, err := os.MkdirTemp("", "smpstats")
		if err != nil {
			fatal("%v", err)
		}
		defer os.RemoveAll(dir)
		restore := silenceStderr()
		res := []map[string]interface{}{}
		for _, c := range statCells {
			if *cell != "" && c.name != *cell {
				continue
			}
			counts := map[string]int{}
			for i := 0; i < *runs; i++ {
				s := *seed*7919 + int64(i)*104729 + 13
				oc, err := c.run(dir, s)
				if err != nil {
					oc = "error:" + err.Error()
				}
				counts[oc]++
			}
			res = append(res, map[string]interface{}{"cell": c.name, "what": c.what, "runs": *runs, "classes": c.classes, "counts": counts})
		}
		restore()
		summary(map[string]interface{}{"cells": res})
	}
}

type statCell struct {
	name, what string
	classes    int // number of equiprobable outcomes
	run        func(dir string, seed int64) (string, error)
}

func setKey(x []int) string {
	y := append([]int{}, x...)
	sort.Ints(y)
	return fmt.Sprint(y)
}

func topoKey(cl [][]int) string {
	keys := []string{}
	for _, c := range cl {
		if len(c) > 1 {
			keys = append(keys, fmt.Sprint(c))
		}
	}
	sort.Strings(keys)
	return strings.Join(keys, "")
}

var statCells = []statCell{
	{"sample-2-1", "sample", 2, func(d string, s int64) (string, error) { o, e := sampleTreesRun(d, 2, 1, false, s); return setKey(o), e }},
	{"sample-5-2", "sample", 10, func(d string, s int64) (string, error) { o, e := sampleTreesRun(d, 5, 2, false, s); return setKey(o), e }},
	{"sample-replace-3-2", "sample --replace", 9, func(d string, s int64) (string, error) {
		o, e := sampleTreesRun(d, 3, 2, true, s)
		return fmt.Sprint(o), e
	}},
	{"prune-random-5-2", "prune --random", 10, func(d string, s int64) (string, error) {
		o, _, e := pruneRandomRun(d, "((t1,t2),t3,(t4,t5));", 2, s)
		return setKey(o), e
	}},
	{"uniformtree-unrooted-5", "RandomUniformBinaryTree", 15, func(d string, s int64) (string, error) {
		rand.Seed(s)
		t, e := tree.RandomUniformBinaryTree(5, false)
		if e != nil {
			return "", e
		}
		return topoKey(clustersOf(t, false)), nil
	}},
	{"uniformtree-rooted-3", "RandomUniformBinaryTree", 3, func(d string, s int64) (string, error) {
		rand.Seed(s)
		t, e := tree.RandomUniformBinaryTree(3, true)
		if e != nil {
			return "", e
		}
		return topoKey(clustersOf(t, true)), nil
	}},
	{"uniformtree-rooted-4", "RandomUniformBinaryTree", 15, func(d string, s int64) (string, error) {
		rand.Seed(s)
		t, e := tree.RandomUniformBinaryTree(4, true)
		if e != nil {
			return "", e
		}
		return topoKey(clustersOf(t, true)), nil
	}},
	{"shuffletips-4", "ShuffleTips", 24, func(d string, s int64) (string, error) {
		t, e := newick.NewParser(strings.NewReader("((a,b),c,d);")).Parse()
		if e != nil {
			return "", e
		}
		rand.Seed(s)
		t.ShuffleTips()
		o := []string{}
		for _, tp := range t.Tips() {
			o = append(o, tp.Name())
		}
		return strings.Join(o, ""), nil
	}},
	{"rotate-4", "RotateNeighbors", 24, func(d string, s int64) (string, error) {
		t, e := newick.NewParser(strings.NewReader("(a,b,c,d);")).Parse()
		if e != nil {
			return "", e
		}
		rand.Seed(s)
		t.Root().RotateNeighbors()
		o := []string{}
		for _, m := range t.Root().Neigh() {
			o = append(o, m.Name())
		}
		return strings.Join(o, ""), nil
	}},
}
