package main

import (
	"encoding/json"
	"flag"
	"fmt"
	"os"
)

// vh <driver> [flags]   — conformance harness for the TLA+ specifications in /verif/spec.
// Every driver writes ndjson traces (one Event per line) that TLC validates, and a small JSON summary
// on stdout for the orchestrator.

func main() {
	if len(os.Args) < 2 {
		fmt.Fprintln(os.Stderr, "usage: vh <driver> [flags]")
		os.Exit(2)
	}
	drv := os.Args[1]
	fs := flag.NewFlagSet(drv, flag.ExitOnError)
	switch drv {
	case "edit":
		prop := fs.String("prop", "C03", "property profile")
		seed := fs.Int64("seed", 1, "seed")
		from := fs.Int("from", 0, "first history")
		to := fs.Int("to", 10, "last history (exclusive)")
		steps := fs.Int("steps", 8, "max steps per history")
		out := fs.String("out", "trace.ndjson", "output trace")
		minT := fs.Int("mintips", 4, "")
		maxT := fs.Int("maxtips", 12, "")
		fs.Parse(os.Args[2:])
		cfg := editCfg{prop: *prop, seed: *seed, steps: *steps, gp: defaultGen()}
		cfg.gp.MinTips, cfg.gp.MaxTips = *minT, *maxT
		cfg.opt = ProjOpt{}
		switch *prop {
		case "C03":
			cfg.opt = ProjOpt{Enum: true, Text: true}
			cfg.gp.Comments = 0.15
		case "C04":
			cfg.opt = ProjOpt{Idx: true}
		case "C15":
			cfg.opt = ProjOpt{Text: true}
			cfg.gp.Comments = 0.3
			cfg.observe = true
		case "C17":
			cfg.opt = ProjOpt{Text: true}
		}
		n, ops := runEditHistories(cfg, *from, *to, *out)
		summary(map[string]interface{}{"events": n, "histories": *to - *from, "ops": ops})
	case "replay-edit":
		cases := fs.String("cases", "cases.ndjson", "TLC-emitted cases")
		out := fs.String("out", "trace.ndjson", "output trace")
		prop := fs.String("prop", "C03", "")
		tag := fs.String("tag", "case", "")
		shard := fs.Int("shard", 0, "")
		nshards := fs.Int("nshards", 1, "")
		fs.Parse(os.Args[2:])
		caseTag = *tag
		n, ops := replayEditCases(*cases, *out, *prop, *shard, *nshards)
		summary(map[string]interface{}{"events": n, "ops": ops})
	default:
		if f, ok := extraDrivers[drv]; ok {
			f(fs, os.Args[2:])
			return
		}
		fmt.Fprintf(os.Stderr, "unknown driver %s\n", drv)
		os.Exit(2)
	}
}

var extraDrivers = map[string]func(fs *flag.FlagSet, args []string){}

func summary(m map[string]interface{}) {
	b, _ := json.Marshal(m)
	fmt.Println("SUMMARY " + string(b))
}
