package main

import (
	"encoding/json"
	"errors"
	"flag"
	"fmt"
	"math/rand"
	"os"
	"path/filepath"
	"sort"
	"strings"
	"sync"
	"time"

	"github.com/evolbioinfo/gotree/hashmap"
	"github.com/evolbioinfo/gotree/support"
	"github.com/evolbioinfo/gotree/tree"
)

// C11: the worker pools of Compare, CompareWeighted, FBP (and TBE) - forced schedules taken from behaviours of
// spec/WorkerPool.tla (gate hooks), and free runs with many thread counts under the race detector.

type gateEv struct {
	site   string
	worker int
	item   int
	resume chan struct{}
}

type scheduler struct {
	mu      sync.Mutex
	events  chan *gateEv
	pending map[int]*gateEv // physical worker -> gate it is blocked at
	free    bool            // gates no longer block
	log     []string
}

func newScheduler() *scheduler {
	return &scheduler{events: make(chan *gateEv, 256), pending: map[int]*gateEv{}}
}

// installed as VerifGate: blocks the calling goroutine until the controller releases it
func (s *scheduler) gate(site string, worker int, item int) {
	s.mu.Lock()
	free := s.free
	s.log = append(s.log, fmt.Sprintf("%d:%s:%d", worker, site[strings.Index(site, ".")+1:], item))
	s.mu.Unlock()
	if free {
		return
	}
	ev := &gateEv{site: site, worker: worker, item: item, resume: make(chan struct{})}
	s.events <- ev
	<-ev.resume
}

func (s *scheduler) releaseAll() {
	s.mu.Lock()
	s.free = true
	s.mu.Unlock()
	for _, ev := range s.pending {
		close(ev.resume)
	}
	s.pending = map[int]*gateEv{}
	for {
		select {
		case ev := <-s.events:
			close(ev.resume)
		default:
			return
		}
	}
}

// waits until some physical worker satisfying pred is blocked at a gate with the given label
func (s *scheduler) waitFor(label string, pred func(ev *gateEv) bool, d time.Duration) *gateEv {
	deadline := time.After(d)
	for {
		for w, ev := range s.pending {
			if strings.HasSuffix(ev.site, "."+label) && pred(ev) {
				delete(s.pending, w)
				return ev
			}
		}
		select {
		case ev := <-s.events:
			s.pending[ev.worker] = ev
		case <-deadline:
			return nil
		}
	}
}

type poolCase struct {
	Kind  string  `json:"kind"` // compare | cmpw | fbp
	W     int     `json:"w"`
	N     int     `json:"n"`
	ErrAt int     `json:"errat"`
	Sched [][]int `json:"sched"` // [logical worker, item] in model order
	K     *int    `json:"k,omitempty"`
}

// inputs of a pool run: a reference tree and n trees on the same taxa (built afresh for every run)
type poolInput struct {
	ref   *STree
	trees []*STree
	// a second erroneous / mismatching tree of the same sort as the first (0 = none; free runs only)
	errAt2 int
}

func genPoolInput(r *rand.Rand, n int, maxT int) *poolInput {
	gp := calcGen(maxT)
	gp.PZeroLen = 0.05
	nt := 5 + r.Intn(maxi(1, maxT-4))
	names := tipNamesN("t", nt)
	coll := collection(r, &gp, names, n+1, false)
	return &poolInput{ref: coll[0], trees: coll[1:]}
}

func (pi *poolInput) build(errAt int, mismatch bool) (*tree.Tree, []tree.Trees) {
	r := rand.New(rand.NewSource(7))
	ref := present(r, pi.ref, 0)
	var items []tree.Trees
	for i, s := range pi.trees {
		id := i
		if i+1 == errAt || (errAt > 0 && pi.errAt2 > 0 && i+1 == pi.errAt2) {
			if mismatch {
				s2 := s.clone()
				leaf := s2
				for len(leaf.Ch) > 0 {
					leaf = leaf.Ch[0]
				}
				leaf.Name = "zz_other"
				items = append(items, tree.Trees{Tree: present(r, s2, 0), Id: id})
			} else {
				items = append(items, tree.Trees{Tree: nil, Id: id, Err: errors.New("erroneous tree in the stream")})
			}
			continue
		}
		items = append(items, tree.Trees{Tree: present(r, s, 0), Id: id})
	}
	return ref, items
}

type poolResult struct {
	records    []string // one canonical string per delivered record, sorted
	err        string
	terminated bool
}

// runs one pipeline; feeder controls how the items enter the input channel
func runPipeline(kind string, ref *tree.Tree, cpus int, feed func(ch chan<- tree.Trees), timeout time.Duration) poolResult {
	in := make(chan tree.Trees, 2)
	res := poolResult{}
	done := make(chan struct{})
	go func() {
		defer close(done)
		defer func() {
			if x := recover(); x != nil {
				res.err = fmt.Sprintf("panic: %v", x)
			}
		}()
		switch kind {
		case "compare":
			ch, err := tree.Compare(ref, in, false, false, cpus)
			if err != nil {
				res.err = err.Error()
				return
			}
			for st := range ch {
				e := ""
				if st.Err != nil {
					e = "ERR"
					res.err = "record with error"
				}
				res.records = append(res.records, fmt.Sprintf("%d|%d|%d|%d|%v|%s", st.Id, st.Tree1, st.Tree2, st.Common, st.Sametree, e))
			}
		case "cmpw":
			ch, err := tree.CompareWeighted(ref, in, true, false, cpus)
			if err != nil {
				res.err = err.Error()
				return
			}
			for st := range ch {
				e := ""
				if st.Err != nil {
					e = "ERR"
					res.err = "record with error"
				}
				norm := func(x []float64) string {
					y := append([]float64{}, x...)
					sort.Float64s(y)
					return fmt.Sprint(y)
				}
				res.records = append(res.records, fmt.Sprintf("%d|%s|%s|%s|%v|%s", st.Id, norm(st.Tree1), norm(st.Tree2), norm(st.Common), st.Sametree, e))
			}
		case "hashmap":
			// the split-keyed map itself, written and read by several goroutines (its RWMutex): every tree of the
			// stream is indexed by some goroutine; the final content must be that of the single-threaded run
			hm := hashmap.NewHashMap(4, 0.75)
			var wg sync.WaitGroup
			for g := 0; g < cpus; g++ {
				wg.Add(1)
				go func() {
					defer wg.Done()
					for it := range in {
						if it.Err != nil || it.Tree == nil {
							continue
						}
						for _, e := range it.Tree.Edges() {
							if v, ok := hm.Value(e); ok {
								_ = v
							} else {
								hm.PutValue(e, 1)
							}
						}
					}
				}()
			}
			wg.Wait()
			pr := project(ref, ProjOpt{})
			for _, k := range hm.Keys() {
				e := k.(*tree.Edge)
				side := []string{}
				for i := uint(0); i < e.Bitset().Len(); i++ {
					if e.Bitset().Test(i) {
						side = append(side, pr.tipNames()[i])
					}
				}
				if len(side)*2 > len(pr.tipNames()) || (len(side)*2 == len(pr.tipNames()) && len(side) > 0 && side[0] != pr.tipNames()[0]) {
					side = complement(pr.tipNames(), side)
				}
				res.records = append(res.records, strings.Join(side, ","))
			}
		case "fbp", "tbe", "tbe-moved":
			var err error
			if kind == "fbp" {
				err = support.FBP(ref, in, cpus, nil)
			} else if kind == "tbe" {
				_, err = support.TBE(ref, in, cpus, false, false, false, 0.3, nil, nil)
			} else {
				// with the per-taxon tallies (shared between the workers of one bootstrap tree, under a mutex)
				lf, _ := os.CreateTemp("", "tbelog")
				_, err = support.TBE(ref, in, cpus, true, true, true, 0.3, lf, nil)
				lf.Close()
				b, _ := os.ReadFile(lf.Name())
				os.Remove(lf.Name())
				for _, ln := range strings.Split(string(b), "\n") {
					res.records = append(res.records, "log|"+ln)
				}
			}
			if err != nil {
				res.err = err.Error()
			}
			for i, e := range ref.Edges() {
				res.records = append(res.records, fmt.Sprintf("%d|%.9f", i, e.Support()))
			}
		}
		sort.Strings(res.records)
	}()
	go feed(in)
	select {
	case <-done:
		res.terminated = true
	case <-time.After(timeout):
		res.terminated = false
	}
	return res
}

func feedAll(items []tree.Trees) func(ch chan<- tree.Trees) {
	return func(ch chan<- tree.Trees) {
		for _, it := range items {
			ch <- it
		}
		close(ch)
	}
}

func setGates(f func(site string, worker int, item int)) {
	tree.VerifGate = f
	support.VerifGate = f
}

// forces the schedule of a model behaviour on the real goroutines
func forcedRun(c *poolCase, pi *poolInput, mismatch bool) (poolResult, bool, []string) {
	ref, items := pi.build(c.ErrAt, mismatch)
	sch := newScheduler()
	setGates(sch.gate)
	defer setGates(nil)
	feedCh := make(chan tree.Trees)
	feedDone := make(chan struct{})
	feeder := func(ch chan<- tree.Trees) {
		for it := range feedCh {
			ch <- it
		}
		close(ch)
		close(feedDone)
	}
	var res poolResult
	resDone := make(chan struct{})
	go func() {
		res = runPipeline(c.Kind, ref, c.W, feeder, 6*time.Second)
		close(resDone)
	}()
	realizable := true
	bound := map[int]int{} // logical worker -> physical worker
	used := map[int]bool{}
	fed := 0
	closed := false
	closeFeed := func() {
		if !closed {
			closed = true
			close(feedCh)
		}
	}
	step := 3 * time.Second
	// per logical worker: what it does next is implied by the order of its entries for an item
	seen := map[[2]int]int{}
	lastItem := map[int]int{}
	for _, e := range c.Sched {
		lw, item := e[0], e[1]
		if item != 0 {
			lastItem[lw] = item
		}
		if !realizable {
			break
		}
		if item == 0 { // "done"
			if fed >= len(items) {
				closeFeed()
			} else if c.Kind == "fbp" && lastItem[lw] == c.ErrAt && c.ErrAt > 0 {
				// the FBP worker that met the erroneous tree leaves at once (it records the error and returns): it is that
				// physical worker, and the others go on
				pw := bound[lw]
				ev := sch.waitFor("done", func(ev *gateEv) bool { return ev.worker == pw && !used[ev.worker] }, step)
				if ev == nil {
					realizable = false
					break
				}
				used[ev.worker] = true
				close(ev.resume)
				continue
			} else {
				// a worker can only see the closed channel once everything was delivered
				realizable = false
				break
			}
			// the workers are interchangeable once idle: any worker that has not left yet plays this one
			ev := sch.waitFor("done", func(ev *gateEv) bool { return !used[ev.worker] }, step)
			if ev == nil {
				realizable = false
				break
			}
			used[ev.worker] = true
			close(ev.resume)
			continue
		}
		k := seen[[2]int{lw, item}]
		seen[[2]int{lw, item}] = k + 1
		isErr := item == c.ErrAt && !mismatch
		var label string
		switch {
		case k == 0:
			label = "recv"
		case isErr && c.Kind == "fbp":
			label = "err"
		case isErr:
			label = "send"
		default:
			label = []string{"recv", "mid1", "mid2", "send"}[mini(k, 3)]
		}
		if label == "recv" {
			if fed >= len(items) || items[fed].Id != item-1 {
				realizable = false
				break
			}
			select {
			case feedCh <- items[fed]:
				fed++
			case <-time.After(step):
				realizable = false
			}
			if !realizable {
				break
			}
			ev := sch.waitFor("recv", func(ev *gateEv) bool { return ev.item == item-1 }, step)
			if ev == nil {
				realizable = false
				break
			}
			// the physical worker that got the tree plays the logical worker for this tree
			for l, p := range bound {
				if p == ev.worker {
					delete(bound, l)
				}
			}
			bound[lw] = ev.worker
			close(ev.resume)
			continue
		}
		p := bound[lw]
		ev := sch.waitFor(label, func(ev *gateEv) bool { return ev.worker == p }, step)
		if ev == nil {
			// an erroneous / mismatching tree may skip the remaining gates of the tree: tolerated
			if item == c.ErrAt {
				continue
			}
			realizable = false
			break
		}
		close(ev.resume)
	}
	// whatever is left runs freely
	closeFeed()
	sch.releaseAll()
	go func() {
		for {
			select {
			case ev := <-sch.events:
				close(ev.resume)
			case <-resDone:
				return
			}
		}
	}()
	<-resDone
	sch.mu.Lock()
	log := append([]string{}, sch.log...)
	sch.mu.Unlock()
	return res, realizable, log
}

func sameRecords(a, b []string) bool {
	if len(a) != len(b) {
		return false
	}
	for i := range a {
		if a[i] != b[i] {
			return false
		}
	}
	return true
}

func poolEvent(f *os.File, label string, kind string, threads, n, errAt int, mismatch, forced, realizable bool, got, seq poolResult, gatelog []string) {
	ev := map[string]interface{}{"ev": "case", "kind": "PoolRun", "case": label, "cls": kind, "pipeline": kind, "threads": threads, "n": n,
		"errat": errAt, "mismatch": mismatch, "forced": forced, "realizable": realizable,
		"terminated": got.terminated, "seqterminated": seq.terminated,
		"same": sameRecords(got.records, seq.records), "nrecords": len(got.records),
		"errsurfaced": got.err != "", "seqerr": seq.err != "", "err": got.err, "gates": len(gatelog)}
	if len(gatelog) > 0 && len(gatelog) <= 40 {
		ev["gatelog"] = gatelog
	}
	emitJSON(f, ev)
}

// reads the race detector's log of this process (GORACE=log_path=...): reports with a gotree frame
func raceReports() (n int, sample string) {
	logp := ""
	for _, kv := range strings.Fields(os.Getenv("GORACE")) {
		if strings.HasPrefix(kv, "log_path=") {
			logp = kv[len("log_path="):]
		}
	}
	if logp == "" {
		return 0, ""
	}
	files, _ := filepath.Glob(logp + ".*")
	for _, fn := range files {
		b, err := os.ReadFile(fn)
		if err != nil {
			continue
		}
		for _, rep := range strings.Split(string(b), "WARNING: DATA RACE") {
			if strings.Contains(rep, "github.com/evolbioinfo/gotree/") && strings.Contains(rep, "Previous") {
				n++
				if sample == "" {
					lines := []string{}
					for _, ln := range strings.Split(rep, "\n") {
						if strings.Contains(ln, ".go:") && !strings.Contains(ln, "/verif/harness/") && !strings.Contains(ln, "/src/runtime/") {
							lines = append(lines, strings.TrimSpace(ln))
						}
					}
					if len(lines) > 6 {
						lines = lines[:6]
					}
					sample = strings.Join(lines, " | ")
				}
			}
		}
	}
	return
}

func init() {
	extraDrivers["pool-replay"] = func(fs *flag.FlagSet, args []string) {
		cases := fs.String("cases", "cases.ndjson", "")
		out := fs.String("out", "trace.ndjson", "")
		prop := fs.String("prop", "C11", "")
		tag := fs.String("tag", "case", "")
		shard := fs.Int("shard", 0, "")
		nshards := fs.Int("nshards", 1, "")
		fs.Parse(args)
		f, err := os.Create(*out)
		if err != nil {
			fatal("%v", err)
		}
		defer f.Close()
		restore := silenceStderr()
		k, n, unreal, hung := -1, 0, 0, 0
		eachLine(*cases, func(line []byte) {
			k++
			if k%*nshards != *shard {
				return
			}
			if hung >= 3 {
				return // a few runs that never return are evidence enough (each costs the watchdog delay)
			}
			var c poolCase
			if err := json.Unmarshal(line, &c); err != nil {
				fatal("case %d: %v", k, err)
			}
			kk := k
			if c.K != nil {
				kk = *c.K
			}
			r := rand.New(rand.NewSource(int64(kk)))
			pi := genPoolInput(r, c.N, 9)
			kinds := []string{c.Kind}
			if c.Kind == "compare" {
				kinds = append(kinds, "cmpw")
			}
			for _, kind := range kinds {
				cc := c
				cc.Kind = kind
				mismatch := kind == "fbp" && kk%2 == 1 && c.ErrAt > 0
				refS, itemsS := pi.build(c.ErrAt, mismatch)
				seq := runPipeline(kind, refS, 1, feedAll(itemsS), 6*time.Second)
				got, realizable, glog := forcedRun(&cc, pi, mismatch)
				if !realizable {
					unreal++
				}
				poolEvent(f, fmt.Sprintf("%s-%s-%d", *prop, *tag, kk), kind, c.W, c.N, c.ErrAt, mismatch, true, realizable, got, seq, glog)
				n++
				if !got.terminated || !seq.terminated {
					hung++
				}
			}
		})
		restore()
		summary(map[string]interface{}{"events": n, "unrealizable": unreal})
	}
	// free runs: many thread counts, collections, error positions; meant to be run from the -race build
	extraDrivers["pool"] = func(fs *flag.FlagSet, args []string) {
		seed := fs.Int64("seed", 1, "")
		from := fs.Int("from", 0, "")
		to := fs.Int("to", 10, "")
		out := fs.String("out", "trace.ndjson", "")
		fs.Parse(args)
		f, err := os.Create(*out)
		if err != nil {
			fatal("%v", err)
		}
		defer f.Close()
		restore := silenceStderr()
		n := 0
		hungFree := 0
		for k := *from; k < *to && hungFree < 3; k++ {
			s := *seed*1000003 + int64(k)
			r := rand.New(rand.NewSource(s))
			ntrees := 1 + r.Intn(12)
			pi := genPoolInput(r, ntrees, 12)
			kind := []string{"compare", "cmpw", "fbp", "tbe", "tbe-moved", "hashmap"}[r.Intn(6)]
			threads := []int{1, 2, 3, 4, 16, ntrees + 3}[r.Intn(6)]
			errAt := 0
			mismatch := false
			if r.Intn(3) == 0 {
				errAt = 1 + r.Intn(ntrees)
				mismatch = r.Intn(2) == 0
				// half of the streams with a bad tree carry a second one (two workers may each meet one)
				if ntrees > 1 && r.Intn(2) == 0 {
					pi.errAt2 = 1 + r.Intn(ntrees)
				}
			}
			refS, itemsS := pi.build(errAt, mismatch)
			seq := runPipeline(kind, refS, 1, feedAll(itemsS), 15*time.Second)
			ref, items := pi.build(errAt, mismatch)
			got := runPipeline(kind, ref, threads, feedAll(items), 15*time.Second)
			if !got.terminated || !seq.terminated {
				hungFree++
			}
			poolEvent(f, fmt.Sprintf("C11-s%d-k%d", *seed, k), kind, threads, ntrees, errAt, mismatch, false, true, got, seq, nil)
			n++
		}
		restore()
		nr, sample := raceReports()
		emitJSON(f, map[string]interface{}{"ev": "case", "kind": "RaceReport", "case": fmt.Sprintf("C11-s%d-k%d", *seed, *from), "cls": "race-detector",
			"races": nr, "sample": sample, "enabled": os.Getenv("GORACE") != ""})
		summary(map[string]interface{}{"events": n + 1, "races": nr})
	}
}
