package main

import (
	"crypto/sha256"
	"encoding/hex"
	"fmt"
	"sort"

	"github.com/evolbioinfo/gotree/tree"
)

// Projection of a real *tree.Tree onto the abstract state of spec/Trees.tla.
// Only getters are used (Root, Neigh, Edges, Left, Right, Name, Comments, Length, Support, PValue,
// Bitset, NumTips*). Everything that *computes* (enumerations, Newick text, indexes) is logged as data
// to be judged by TLC.

type PNode struct {
	Nm string   `json:"nm"`
	Nb []int    `json:"nb"`
	Br []int    `json:"br"`
	Cm []string `json:"cm"`
}

type PEdge struct {
	L   int      `json:"l"`
	R   int      `json:"r"`
	Len int64    `json:"len"`
	Sup int64    `json:"sup"`
	Pv  int64    `json:"pv"`
	Cm  []string `json:"cm"`
}

// Index fields of a branch as recorded by gotree (C04).
type PIdx struct {
	Has  bool  `json:"has"`  // bitset present
	Bits []int `json:"bits"` // ranks (1-based, in the harness' own sorted tip-name order) whose bit is set
	Blen int   `json:"blen"` // bitset length
	NL   int   `json:"nl"`
	NR   int   `json:"nr"`
	TD   int   `json:"td"` // TopoDepth (-1 on error)
	H    int   `json:"h"`  // HashCode folded to 30 bits (only compared for equality)
}

type PEnum struct {
	Nodes  []int    `json:"nodes"`
	Tips   []int    `json:"tips"`
	Edges  []int    `json:"edges"`
	Int    []int    `json:"int"`
	TipE   []int    `json:"tipe"`
	Names  []string `json:"names"`  // AllTipNames
	Sorted []int    `json:"sorted"` // SortedTips
	Rooted bool     `json:"rooted"`
	// Tree.PreOrder / Tree.PostOrder: one [node, previous node (0 at the root), branch (0 at the root)] per call-back
	Pre  [][]int `json:"pre"`
	Post [][]int `json:"post"`
	// number of call-backs made when the call-back answers false at its StopAt-th call (the traversal must stop there)
	StopAt   int `json:"stopat"`
	PreStop  int `json:"prestop"`
	PostStop int `json:"poststop"`
}

type PTree struct {
	Root int     `json:"root"`
	N    []PNode `json:"N"`
	E    []PEdge `json:"E"`
	Trunc bool   `json:"trunc"` // walk stopped: structure larger than the cap (cyclic / runaway)
	Sane bool    `json:"sane"`  // harness' own cheap tree test (guards the computed calls below)
	Idx  []PIdx  `json:"idx,omitempty"`
	Rank []string `json:"rank,omitempty"` // sorted tip names (harness' own ranking)
	// look-ups by name (logged with the index fields): names of the current tips that ExistsTip / TipNode / TipIndex
	// answer correctly (found, the right node, the rank of the name)
	Found []string `json:"found,omitempty"`
	Enum *PEnum  `json:"enum,omitempty"`
	Txt  *RTree  `json:"txt,omitempty"`
	Sha  string  `json:"sha,omitempty"`
	Raw  string  `json:"raw,omitempty"`

	nodeId map[*tree.Node]int
	edgeId map[*tree.Edge]int
	nodes  []*tree.Node
	edges  []*tree.Edge
}

type ProjOpt struct {
	Idx  bool // log index fields
	Enum bool // log enumeration answers
	Text bool // log Newick text (parsed by the reference reader)
	Raw  bool // keep the raw text
	Rank bool // log the harness' own sorted tip-name ranking
}

const projCap = 4000

func strs(s []string) []string {
	out := make([]string, len(s))
	copy(out, s)
	return out
}

// project walks the structure by pointer identity. It terminates on any pointer graph.
func project(t *tree.Tree, opt ProjOpt) (p *PTree) {
	p = &PTree{nodeId: map[*tree.Node]int{}, edgeId: map[*tree.Edge]int{}}
	p.N = []PNode{}
	p.E = []PEdge{}
	if t == nil || t.Root() == nil {
		return p
	}
	nid := func(n *tree.Node) int {
		if n == nil {
			return 0
		}
		if id, ok := p.nodeId[n]; ok {
			return id
		}
		if len(p.nodes) >= projCap {
			p.Trunc = true
			return 0
		}
		p.nodes = append(p.nodes, n)
		p.nodeId[n] = len(p.nodes)
		return len(p.nodes)
	}
	eid := func(e *tree.Edge) int {
		if e == nil {
			return 0
		}
		if id, ok := p.edgeId[e]; ok {
			return id
		}
		if len(p.edges) >= projCap {
			p.Trunc = true
			return 0
		}
		p.edges = append(p.edges, e)
		p.edgeId[e] = len(p.edges)
		return len(p.edges)
	}
	p.Root = nid(t.Root())
	// nodes and edges lists grow while we scan them
	ni, ei := 0, 0
	for ni < len(p.nodes) || ei < len(p.edges) {
		for ni < len(p.nodes) {
			n := p.nodes[ni]
			ni++
			for _, m := range n.Neigh() {
				nid(m)
			}
			for _, e := range n.Edges() {
				eid(e)
			}
		}
		for ei < len(p.edges) {
			e := p.edges[ei]
			ei++
			nid(e.Left())
			nid(e.Right())
		}
	}
	for _, n := range p.nodes {
		pn := PNode{Nm: n.Name(), Nb: []int{}, Br: []int{}, Cm: strs(n.Comments())}
		for _, m := range n.Neigh() {
			pn.Nb = append(pn.Nb, nid(m))
		}
		for _, e := range n.Edges() {
			pn.Br = append(pn.Br, eid(e))
		}
		p.N = append(p.N, pn)
	}
	for _, e := range p.edges {
		p.E = append(p.E, PEdge{L: nid(e.Left()), R: nid(e.Right()),
			Len: toUnits(e.Length()), Sup: toUnits(e.Support()), Pv: toUnits(e.PValue()), Cm: strs(e.Comments())})
	}
	p.Sane = p.sane()
	if opt.Rank && !opt.Idx {
		p.Rank = p.tipRank()
	}
	if opt.Idx {
		p.Rank = p.tipRank()
		rk := map[string]int{}
		for i, s := range p.Rank {
			rk[s] = i + 1
		}
		for _, e := range p.edges {
			ix := PIdx{Bits: []int{}, NL: e.NumTipsLeft(), NR: e.NumTipsRight(), TD: -1}
			if d, err := e.TopoDepth(); err == nil {
				ix.TD = d
			}
			if bs := e.Bitset(); bs != nil {
				ix.Has = true
				ix.Blen = int(bs.Len())
				for i := uint(0); i < bs.Len(); i++ {
					if bs.Test(i) {
						ix.Bits = append(ix.Bits, int(i)+1)
					}
				}
			}
			func() {
				defer func() { recover() }()
				h := e.HashCode()
				ix.H = int((h ^ (h >> 30) ^ (h >> 60)) & ((1 << 30) - 1))
			}()
			p.Idx = append(p.Idx, ix)
		}
		p.Found = []string{}
		for _, n := range p.nodes {
			if len(n.Neigh()) == 1 && n != t.Root() {
				func() {
					defer func() { recover() }()
					ok, err := t.ExistsTip(n.Name())
					tn, err2 := t.TipNode(n.Name())
					ti, err3 := t.TipIndex(n.Name())
					if err == nil && ok && err2 == nil && tn == n && err3 == nil && ti == rk[n.Name()]-1 {
						p.Found = append(p.Found, n.Name())
					}
				}()
			}
		}
	}
	if p.Sane && opt.Enum {
		en := &PEnum{}
		en.Rooted = t.Rooted()
		for _, n := range t.Nodes() {
			en.Nodes = append(en.Nodes, p.nodeId[n])
		}
		for _, n := range t.Tips() {
			en.Tips = append(en.Tips, p.nodeId[n])
		}
		for _, e := range t.Edges() {
			en.Edges = append(en.Edges, p.edgeId[e])
		}
		for _, e := range t.InternalEdges() {
			en.Int = append(en.Int, p.edgeId[e])
		}
		for _, e := range t.TipEdges() {
			en.TipE = append(en.TipE, p.edgeId[e])
		}
		en.Names = strs(t.AllTipNames())
		for _, n := range t.SortedTips() {
			en.Sorted = append(en.Sorted, p.nodeId[n])
		}
		en.Pre, en.Post = [][]int{}, [][]int{}
		rec := func(dst *[][]int) func(cur, prev *tree.Node, e *tree.Edge) bool {
			return func(cur, prev *tree.Node, e *tree.Edge) bool {
				pi, ei := 0, 0
				if prev != nil {
					pi = p.nodeId[prev]
				}
				if e != nil {
					ei = p.edgeId[e]
				}
				*dst = append(*dst, []int{p.nodeId[cur], pi, ei})
				return len(*dst) < 4*len(p.N)+8 // a runaway traversal is cut
			}
		}
		t.PreOrder(rec(&en.Pre))
		t.PostOrder(rec(&en.Post))
		en.StopAt = 1 + (len(p.N)+len(p.E))%3
		stopper := func(cnt *int) func(cur, prev *tree.Node, e *tree.Edge) bool {
			return func(cur, prev *tree.Node, e *tree.Edge) bool {
				*cnt++
				return *cnt < en.StopAt && *cnt < 4*len(p.N)+8
			}
		}
		t.PreOrder(stopper(&en.PreStop))
		t.PostOrder(stopper(&en.PostStop))
		nz := func(x []int) []int {
			if x == nil {
				return []int{}
			}
			return x
		}
		en.Nodes, en.Tips, en.Edges, en.Int, en.TipE, en.Sorted = nz(en.Nodes), nz(en.Tips), nz(en.Edges), nz(en.Int), nz(en.TipE), nz(en.Sorted)
		p.Enum = en
	}
	if p.Sane && opt.Text {
		txt := t.Newick()
		h := sha256.Sum256([]byte(txt))
		p.Sha = hex.EncodeToString(h[:8])
		rt := refParse(txt)
		p.Txt = rt
		if opt.Raw {
			p.Raw = txt
		}
	}
	return p
}

// sane is the harness' own cheap structural test: it only protects the harness against calling
// gotree's recursive enumerations / writer on a cyclic or dangling structure (they would hang or
// panic). It is NOT the judgement: WellFormed is evaluated by TLC on the logged structure.
func (p *PTree) sane() bool {
	if p.Trunc || p.Root == 0 || len(p.E) != len(p.N)-1 {
		return false
	}
	for i, n := range p.N {
		if len(n.Nb) != len(n.Br) {
			return false
		}
		for k, m := range n.Nb {
			if m == 0 || n.Br[k] == 0 || m == i+1 {
				return false
			}
			e := p.E[n.Br[k]-1]
			if !((e.L == i+1 && e.R == m) || (e.R == i+1 && e.L == m)) {
				return false
			}
			back := false
			for k2, m2 := range p.N[m-1].Nb {
				if m2 == i+1 && k2 < len(p.N[m-1].Br) && p.N[m-1].Br[k2] == n.Br[k] {
					back = true
				}
			}
			if !back {
				return false
			}
		}
	}
	// undirected reachability from the root covers all nodes (with |E| = |N|-1 => tree)
	seen := make([]bool, len(p.N)+1)
	st := []int{p.Root}
	seen[p.Root] = true
	cnt := 0
	for len(st) > 0 {
		n := st[len(st)-1]
		st = st[:len(st)-1]
		cnt++
		for _, m := range p.N[n-1].Nb {
			if !seen[m] {
				seen[m] = true
				st = append(st, m)
			}
		}
	}
	if cnt != len(p.N) {
		return false
	}
	// orientation: walking from the root, every branch must point away from it (gotree's recursive
	// enumerations rely on it to terminate sensibly)
	return true
}

// tipRank: sorted names of the degree-1 nodes other than the root, found by the harness' own walk.
func (p *PTree) tipRank() []string {
	names := []string{}
	for i, n := range p.N {
		if len(n.Nb) == 1 && i+1 != p.Root {
			names = append(names, n.Nm)
		}
	}
	sort.Strings(names)
	return names
}

func (p *PTree) tipNames() []string { return p.tipRank() }

// Node / edge pointers by dense id of this projection (1-based).
func (p *PTree) node(id int) *tree.Node { return p.nodes[id-1] }
func (p *PTree) edge(id int) *tree.Edge { return p.edges[id-1] }

func (p *PTree) innerIds() []int {
	out := []int{}
	for i, n := range p.N {
		if len(n.Nb) > 1 {
			out = append(out, i+1)
		}
	}
	return out
}

func (p *PTree) tipIds() []int {
	out := []int{}
	for i, n := range p.N {
		if len(n.Nb) == 1 && i+1 != p.Root {
			out = append(out, i+1)
		}
	}
	return out
}

func (p *PTree) String() string {
	return fmt.Sprintf("PTree(root=%d,N=%d,E=%d)", p.Root, len(p.N), len(p.E))
}
