package main

import "math/rand"

func caseC04(r *rand.Rand, cw *CalcWriter, label string, maxT int) {}
func caseC16(r *rand.Rand, cw *CalcWriter, label string, maxT int) {}

func replayCalcExtra2(cw *CalcWriter, c *calcCase, label string, k int) {}
