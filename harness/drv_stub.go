package main

import "math/rand"

func caseC12(r *rand.Rand, cw *CalcWriter, label string, maxT int) {}
func caseC04(r *rand.Rand, cw *CalcWriter, label string, maxT int) {}
func caseC16(r *rand.Rand, cw *CalcWriter, label string, maxT int) {}

func replayCalcExtra(cw *CalcWriter, c *calcCase, label string, k int) {}
