package main

func replayCalcExtra4(cw *CalcWriter, c *calcCase, label string, k int) {}
