package main

import "math/rand"

func caseC16(r *rand.Rand, cw *CalcWriter, label string, maxT int) {}

func replayCalcExtra3(cw *CalcWriter, c *calcCase, label string, k int) {}
