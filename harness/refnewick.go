package main

import (
	"strconv"
	"strings"
)

// Reference Newick reader, independent of gotree/io/newick. It reads the subset gotree writes
// (and ordinary foreign Newick): nested parentheses, labels, [comments], :length.
// It yields a rooted ordered tree; the label of an inner node is kept raw (it is a name or a
// support[/pvalue]; who is who is decided by the TLA+ predicate, not here).

type RNode struct {
	Ch   []int    `json:"ch"`   // children (1-based indexes into Nodes), in text order
	Lab  string   `json:"lab"`  // raw label
	Num  bool     `json:"num"`  // label looks like float or float/float
	Sup  int64    `json:"sup"`  // units, when Num
	Pv   int64    `json:"pv"`   // units, when Num and a second number is present; NIL otherwise
	Len  int64    `json:"len"`  // units; NIL when there is no ":length"
	Cm   []string `json:"cm"`   // comments before the ':' (node comments)
	Ecm  []string `json:"ecm"`  // comments after the length (branch comments)
	LenS string   `json:"-"`    // raw number text
	SupS string   `json:"-"`
	PvS  string   `json:"-"`
}

type RTree struct {
	Ok    bool    `json:"ok"`
	Err   string  `json:"err"`
	Root  int     `json:"root"`
	Nodes []RNode `json:"nodes"`
}

const newickMeta = "()[],:;"

func refParse(s string) *RTree {
	t := &RTree{Nodes: []RNode{}}
	pos := 0
	n := len(s)
	skipWS := func() {
		for pos < n && (s[pos] == ' ' || s[pos] == '\t' || s[pos] == '\n' || s[pos] == '\r') {
			pos++
		}
	}
	fail := func(msg string) *RTree {
		t.Ok = false
		t.Err = msg + " at " + strconv.Itoa(pos)
		return t
	}
	newNode := func() int {
		t.Nodes = append(t.Nodes, RNode{Ch: []int{}, Cm: []string{}, Ecm: []string{}, Len: NILU, Sup: NILU, Pv: NILU})
		return len(t.Nodes)
	}
	readLabel := func() string {
		st := pos
		for pos < n && !strings.ContainsRune(newickMeta, rune(s[pos])) {
			pos++
		}
		return strings.TrimSpace(s[st:pos])
	}
	readComments := func() ([]string, bool) {
		out := []string{}
		for {
			skipWS()
			if pos < n && s[pos] == '[' {
				end := strings.IndexByte(s[pos:], ']')
				if end < 0 {
					return out, false
				}
				out = append(out, s[pos+1:pos+end])
				pos += end + 1
			} else {
				return out, true
			}
		}
	}
	// decorations after a node's subtree / tip: label, comments, :length, comments
	decorate := func(id int) bool {
		skipWS()
		lab := readLabel()
		nd := &t.Nodes[id-1]
		nd.Lab = lab
		if lab != "" {
			parts := strings.Split(lab, "/")
			if len(parts) <= 2 {
				if f, err := strconv.ParseFloat(parts[0], 64); err == nil {
					if len(parts) == 1 {
						nd.Num, nd.Sup, nd.SupS = true, toUnits(f), parts[0]
					} else if g, err2 := strconv.ParseFloat(parts[1], 64); err2 == nil {
						nd.Num, nd.Sup, nd.Pv, nd.SupS, nd.PvS = true, toUnits(f), toUnits(g), parts[0], parts[1]
					}
				}
			}
		}
		cm, ok := readComments()
		if !ok {
			return false
		}
		nd = &t.Nodes[id-1]
		nd.Cm = cm
		skipWS()
		if pos < n && s[pos] == ':' {
			pos++
			skipWS()
			num := readLabel()
			f, err := strconv.ParseFloat(num, 64)
			if err != nil {
				return false
			}
			nd.Len = toUnits(f)
			nd.LenS = num
			ecm, ok2 := readComments()
			if !ok2 {
				return false
			}
			nd = &t.Nodes[id-1]
			nd.Ecm = ecm
		}
		return true
	}
	// iterative descent with an explicit stack
	stack := []int{}
	skipWS()
	root := newNode()
	t.Root = root
	cur := root
	if pos < n && s[pos] == '(' {
		// general loop
		for {
			skipWS()
			if pos >= n {
				return fail("unexpected end")
			}
			c := s[pos]
			switch {
			case c == '(':
				pos++
				stack = append(stack, cur)
				ch := newNode()
				t.Nodes[cur-1].Ch = append(t.Nodes[cur-1].Ch, ch)
				cur = ch
			case c == ',':
				pos++
				if len(stack) == 0 {
					return fail("comma at top level")
				}
				par := stack[len(stack)-1]
				ch := newNode()
				t.Nodes[par-1].Ch = append(t.Nodes[par-1].Ch, ch)
				cur = ch
			case c == ')':
				pos++
				if len(stack) == 0 {
					return fail("unbalanced )")
				}
				cur = stack[len(stack)-1]
				stack = stack[:len(stack)-1]
				if !decorate(cur) {
					return fail("bad decoration")
				}
			case c == ';':
				pos++
				if len(stack) != 0 {
					return fail("unbalanced (")
				}
				t.Ok = true
				return t
			default:
				// a tip (or decorations of cur when cur is a fresh, childless node)
				if len(t.Nodes[cur-1].Ch) != 0 || t.Nodes[cur-1].Lab != "" || t.Nodes[cur-1].Len != NILU {
					return fail("unexpected token")
				}
				if !decorate(cur) {
					return fail("bad decoration")
				}
				if t.Nodes[cur-1].Lab == "" && t.Nodes[cur-1].Len == NILU && len(t.Nodes[cur-1].Cm) == 0 {
					return fail("empty token")
				}
			}
		}
	}
	// single node tree "A;"
	if !decorate(cur) {
		return fail("bad decoration")
	}
	skipWS()
	if pos < n && s[pos] == ';' {
		t.Ok = true
		return t
	}
	return fail("missing ;")
}
