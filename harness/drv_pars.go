package main

import (
	"math/rand"
	"sort"
	"strconv"
	"strings"

	"github.com/evolbioinfo/goalign/align"
	"github.com/evolbioinfo/gotree/acr"
	"github.com/evolbioinfo/gotree/asr"
	"github.com/evolbioinfo/gotree/tree"
)

// C12: parsimony reconstruction, single character (acr) and sequences (asr).

var parsAlgos = []struct {
	name     string
	acr, asr int
}{{"DOWNPASS", acr.ALGO_DOWNPASS, asr.ALGO_DOWNPASS}, {"DELTRAN", acr.ALGO_DELTRAN, asr.ALGO_DELTRAN}, {"ACCTRAN", acr.ALGO_ACCTRAN, asr.ALGO_ACCTRAN}}

// the harness' own reading of the IUPAC codes (an input convention, not a judgement)
var iupac = map[byte]string{'A': "A", 'C': "C", 'G': "G", 'T': "T", 'R': "AG", 'Y': "CT", 'S': "CG", 'W': "AT", 'K': "GT", 'M': "AC",
	'B': "CGT", 'D': "AGT", 'H': "ACT", 'V': "ACG", 'N': "ACGT"}

func splitChars(s string) []string {
	out := []string{}
	for _, c := range s {
		out = append(out, string(c))
	}
	return out
}

// reported states of every node (by projection id) after ParsimonyAcr: first comment, "A|B"
func acrStates(p *PTree) [][]string {
	out := [][]string{}
	for _, n := range p.nodes {
		cm := n.Comments()
		if len(cm) == 0 {
			out = append(out, []string{})
			continue
		}
		out = append(out, strings.Split(cm[0], "|"))
	}
	return out
}

func runAcr(s *STree, rot int, tipstates map[string]string, algoName string, algo int, label string, r *rand.Rand) *CEvent {
	t := present(r, s, rot)
	p := project(t, ProjOpt{})
	alpha := map[string]bool{}
	tips := [][]string{}
	for _, nm := range p.tipNames() {
		tips = append(tips, []string{nm, tipstates[nm]})
		alpha[tipstates[nm]] = true
	}
	alphabet := []string{}
	for a := range alpha {
		alphabet = append(alphabet, a)
	}
	sort.Strings(alphabet)
	ev := &CEvent{Kind: "Parsimony", Prop: "C12", Case: label, Trees: []*PTree{p},
		Args: map[string]interface{}{"algo": algoName, "alphabet": alphabet, "tips": tips}}
	ev.guard(calcTimeout, func() error {
		m, nsteps, err := acr.ParsimonyAcr(t, tipstates, algo, false)
		if err != nil {
			return err
		}
		// the returned map: key = node name, or its rank in the depth-first enumeration when it has none
		byNode := [][]string{}
		rank := map[*tree.Node]int{}
		for i, n := range t.Nodes() {
			rank[n] = i
		}
		for _, n := range p.nodes {
			key := n.Name()
			if key == "" {
				key = strconv.Itoa(rank[n])
			}
			v, ok := m[key]
			switch {
			case n.Tip():
				byNode = append(byNode, []string{"tip"})
			case !ok:
				byNode = append(byNode, []string{"missing"})
			default:
				byNode = append(byNode, strings.Split(v, ","))
			}
		}
		ev.Res = map[string]interface{}{"steps": nsteps, "states": acrStates(p), "bymap": byNode}
		return nil
	})
	return ev
}

// parses an ancestral sequence as written by asr ("A{CG}T") into per-site state lists
func parseAncSeq(s string) [][]string {
	out := [][]string{}
	i := 0
	for i < len(s) {
		if s[i] == '{' {
			j := strings.IndexByte(s[i:], '}')
			if j < 0 {
				out = append(out, []string{"?"})
				break
			}
			out = append(out, splitChars(s[i+1:i+j]))
			i += j + 1
		} else {
			out = append(out, []string{string(s[i])})
			i++
		}
	}
	return out
}

func caseC12(r *rand.Rand, cw *CalcWriter, label string, maxT int) {
	gp := calcGen(maxT)
	gp.MinTips = 3
	gp.PMulti = 0.45
	s := genSTree(r, &gp)
	names := s.tipNames()
	if r.Intn(3) > 0 {
		// single character, 2..4 states
		k := 2 + r.Intn(3)
		states := []string{"A", "C", "G", "T"}[:k]
		tipstates := map[string]string{}
		// clustered states so that the minimum is interesting
		base := states[r.Intn(k)]
		for _, nm := range names {
			if r.Intn(3) == 0 {
				tipstates[nm] = base
			} else {
				tipstates[nm] = states[r.Intn(k)]
			}
		}
		rot := r.Intn(4)
		for _, al := range parsAlgos {
			cw.emit(runAcr(s, rot, tipstates, al.name, al.acr, label, r))
		}
		return
	}
	// sequences
	m := 1 + r.Intn(4)
	ambiguous := r.Intn(2) == 0
	codes := "ACGT"
	if ambiguous {
		codes = "ACGTACGTRYSWKMBDHVN"
	}
	seqs := map[string]string{}
	for _, nm := range names {
		b := make([]byte, m)
		for j := range b {
			b[j] = codes[r.Intn(len(codes))]
		}
		seqs[nm] = string(b)
	}
	al := parsAlgos[r.Intn(3)]
	t := present(r, s, r.Intn(4))
	p := project(t, ProjOpt{})
	sorted := p.tipNames()
	sets := [][][]string{}
	seqlist := [][]string{}
	for _, nm := range sorted {
		row := [][]string{}
		for j := 0; j < m; j++ {
			row = append(row, splitChars(iupac[seqs[nm][j]]))
		}
		sets = append(sets, row)
		seqlist = append(seqlist, []string{nm, seqs[nm]})
	}
	ev := &CEvent{Kind: "ParsimonySeq", Prop: "C12", Case: label, Trees: []*PTree{p},
		Args: map[string]interface{}{"algo": al.name, "names": sorted, "seqs": seqlist, "sets": sets, "nsites": m, "ambiguous": ambiguous}}
	ev.guard(calcTimeout, func() error {
		a := align.NewAlign(align.NUCLEOTIDS)
		for _, nm := range sorted {
			if err := a.AddSequence(nm, seqs[nm], ""); err != nil {
				return err
			}
		}
		nsteps, err := asr.ParsimonyAsr(t, a, al.asr, false)
		if err != nil {
			return err
		}
		st := [][][]string{}
		for _, n := range p.nodes {
			cm := n.Comments()
			if len(cm) == 0 {
				st = append(st, [][]string{})
				continue
			}
			st = append(st, parseAncSeq(cm[len(cm)-1]))
		}
		steps := []int{}
		for j := 0; j < m; j++ {
			steps = append(steps, nsteps[j])
		}
		res := map[string]interface{}{"steps": steps, "states": st}
		single := []map[string]interface{}{}
		if !ambiguous {
			// the single-character reconstruction of every site, same tree presentation, same algorithm
			for j := 0; j < m; j++ {
				t2 := t.Clone()
				p2 := project(t2, ProjOpt{})
				ts := map[string]string{}
				for _, nm := range sorted {
					ts[nm] = string(seqs[nm][j])
				}
				_, ns, err := acr.ParsimonyAcr(t2, ts, al.acr, false)
				if err != nil {
					return err
				}
				single = append(single, map[string]interface{}{"steps": ns, "states": acrStates(p2)})
			}
		}
		res["single"] = single
		ev.Res = res
		return nil
	})
	cw.emit(ev)
}

var _ = tree.NIL_LENGTH

// the sequence entry point on an explicit alignment, recorded as one ParsimonySeq event
func runAsr(t *tree.Tree, seqs map[string]string, m int, ambiguous bool, algoName string, asrAlgo, acrAlgo int, label string) *CEvent {
	p := project(t, ProjOpt{})
	sorted := p.tipNames()
	sets := [][][]string{}
	seqlist := [][]string{}
	for _, nm := range sorted {
		row := [][]string{}
		for j := 0; j < m; j++ {
			row = append(row, splitChars(iupac[seqs[nm][j]]))
		}
		sets = append(sets, row)
		seqlist = append(seqlist, []string{nm, seqs[nm]})
	}
	ev := &CEvent{Kind: "ParsimonySeq", Prop: "C12", Case: label, Trees: []*PTree{p},
		Args: map[string]interface{}{"algo": algoName, "names": sorted, "seqs": seqlist, "sets": sets, "nsites": m, "ambiguous": ambiguous}}
	ev.guard(calcTimeout, func() error {
		single := []map[string]interface{}{}
		if !ambiguous {
			for j := 0; j < m; j++ {
				t2 := t.Clone()
				p2 := project(t2, ProjOpt{})
				ts := map[string]string{}
				for _, nm := range sorted {
					ts[nm] = string(seqs[nm][j])
				}
				_, ns, err := acr.ParsimonyAcr(t2, ts, acrAlgo, false)
				if err != nil {
					return err
				}
				single = append(single, map[string]interface{}{"steps": ns, "states": acrStates(p2)})
			}
		}
		a := align.NewAlign(align.NUCLEOTIDS)
		for _, nm := range sorted {
			if err := a.AddSequence(nm, seqs[nm], ""); err != nil {
				return err
			}
		}
		nsteps, err := asr.ParsimonyAsr(t, a, asrAlgo, false)
		if err != nil {
			return err
		}
		st := [][][]string{}
		for _, n := range p.nodes {
			cm := n.Comments()
			if len(cm) == 0 {
				st = append(st, [][]string{})
				continue
			}
			st = append(st, parseAncSeq(cm[len(cm)-1]))
		}
		steps := []int{}
		for j := 0; j < m; j++ {
			steps = append(steps, nsteps[j])
		}
		ev.Res = map[string]interface{}{"steps": steps, "states": st, "single": single}
		return nil
	})
	return ev
}

func replayCalcExtra(cw *CalcWriter, c *calcCase, label string, k int) {
	switch c.Fam {
	case "C12":
		singles := true
		tipstates := map[string]string{}
		seqs := map[string]string{}
		for _, tp := range c.Tips {
			if len(tp.St) != 1 {
				singles = false
			}
			key := strings.Join(tp.St, "")
			code := byte('N')
			for cd, set := range iupac {
				if set == key {
					code = cd
				}
			}
			seqs[tp.Nm] = string(code)
			tipstates[tp.Nm] = tp.St[0]
		}
		if singles {
			for i, al := range parsAlgos {
				t := mustModelTree(&c.Ref, (k+i)%3)
				p := project(t, ProjOpt{})
				alpha := map[string]bool{}
				tips := [][]string{}
				for _, nm := range p.tipNames() {
					tips = append(tips, []string{nm, tipstates[nm]})
					alpha[tipstates[nm]] = true
				}
				alphabet := []string{}
				for a := range alpha {
					alphabet = append(alphabet, a)
				}
				sort.Strings(alphabet)
				ev := &CEvent{Kind: "Parsimony", Prop: "C12", Case: label, Trees: []*PTree{p},
					Args: map[string]interface{}{"algo": al.name, "alphabet": alphabet, "tips": tips}}
				algo := al.acr
				ev.guard(calcTimeout, func() error {
					_, nsteps, err := acr.ParsimonyAcr(t, tipstates, algo, false)
					if err != nil {
						return err
					}
					ev.Res = map[string]interface{}{"steps": nsteps, "states": acrStates(p)}
					return nil
				})
				cw.emit(ev)
			}
		}
		al := parsAlgos[k%3]
		t := mustModelTree(&c.Ref, k%2)
		cw.emit(runAsr(t, seqs, 1, !singles, al.name, al.asr, al.acr, label))
	default:
		replayCalcExtra2(cw, c, label, k)
	}
}
