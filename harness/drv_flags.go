package main

import (
	"bytes"
	"context"
	"crypto/sha256"
	"encoding/hex"
	"encoding/json"
	"flag"
	"fmt"
	"os"
	"os/exec"
	"path/filepath"
	"reflect"
	"regexp"
	"sort"
	"strings"
	"time"

	gcmd "github.com/evolbioinfo/gotree/cmd"
	"github.com/spf13/cobra"
	"github.com/spf13/pflag"
)

// C19: the option registry after package initialisation, and for every option the behaviour of the command
// with the option omitted vs. given as its documented default (gotree binary built from /repo).

type flagRow struct {
	Cmd  string `json:"cmd"`
	Flag string `json:"flag"`
	Kind string `json:"kind"`
	Typ  string `json:"typ"`
	Def  string `json:"def"`
	Cur  string `json:"cur"`
	Cell string `json:"cell"`
}

func walkFlags(c *cobra.Command, path []string, rows *[]flagRow) {
	p := append(append([]string{}, path...), c.Name())
	seen := map[string]bool{}
	visit := func(kind string) func(fl *pflag.Flag) {
		return func(fl *pflag.Flag) {
			if seen[fl.Name] {
				return
			}
			seen[fl.Name] = true
			*rows = append(*rows, flagRow{Cmd: strings.Join(p[1:], " "), Flag: fl.Name, Kind: kind, Typ: fl.Value.Type(), Def: fl.DefValue,
				Cur: fl.Value.String(), Cell: fmt.Sprintf("%x", reflect.ValueOf(fl.Value).Pointer())})
		}
	}
	c.LocalNonPersistentFlags().VisitAll(visit("local"))
	c.PersistentFlags().VisitAll(visit("persistent"))
	for _, s := range c.Commands() {
		walkFlags(s, p, rows)
	}
}

var reDate = regexp.MustCompile(`\d{1,2} [A-Z][a-z]{2} \d{2,4} \d{2}:\d{2}( [A-Z]{2,5})?`)

type runOut struct {
	rc     int
	stdout string
	stderr string
	files  string
	filesSorted string
	hung   bool
}

func (r runOut) key() string {
	h := sha256.Sum256([]byte(fmt.Sprintf("%d\x00%s\x00%s\x00%s\x00%v", r.rc, r.stdout, r.stderr, r.files, r.hung)))
	return hex.EncodeToString(h[:8])
}

const stdinTree = "((a:1,b:2)0.9:1,((c:1,d:3)0.3:0.5,e:1)0.65:0.25,f:2);\n((a:1,c:2)0.95:1,((b:1,d:3)0.1:0.5,e:1)0.8:0.25,f:2);\n"

func runGotree(bin string, base string, args []string) runOut {
	dir, err := os.MkdirTemp(base, "fr")
	if err != nil {
		fatal("%v", err)
	}
	defer os.RemoveAll(dir)
	return runGotreeIn(bin, dir, args, stdinTree)
}

// runs the binary in dir (files it leaves there are part of the output)
func runGotreeIn(bin string, dir string, args []string, stdin string) runOut {
	var err error
	ctx, cancel := context.WithTimeout(context.Background(), 20*time.Second)
	defer cancel()
	c := exec.CommandContext(ctx, bin, args...)
	c.Dir = dir
	c.Stdin = strings.NewReader(stdin)
	var so, se bytes.Buffer
	c.Stdout, c.Stderr = &so, &se
	err = c.Run()
	out := runOut{}
	if ctx.Err() != nil {
		out.hung = true
	}
	if c.ProcessState != nil {
		out.rc = c.ProcessState.ExitCode()
	} else if err != nil {
		out.rc = -1
	}
	mask := func(s string) string { return reDate.ReplaceAllString(s, "<date>") }
	out.stdout, out.stderr = mask(so.String()), mask(se.String())
	var names, snames []string
	filepath.Walk(dir, func(p string, info os.FileInfo, err error) error {
		if err == nil && !info.IsDir() {
			b, _ := os.ReadFile(p)
			b = []byte(strings.ReplaceAll(string(b), dir, "<run>"))
			if i := strings.LastIndex(dir, "/"); i > 0 {
				b = []byte(maskScratch(string(b), dir[:i]))
			}
			h := sha256.Sum256([]byte(mask(string(b))))
			names = append(names, strings.TrimPrefix(p, dir)+":"+hex.EncodeToString(h[:6]))
			ls := strings.Split(mask(string(b)), "\n")
			sort.Strings(ls)
			h2 := sha256.Sum256([]byte(strings.Join(ls, "\n")))
			snames = append(snames, strings.TrimPrefix(p, dir)+":"+hex.EncodeToString(h2[:6]))
		}
		return nil
	})
	sort.Strings(names)
	out.files = strings.Join(names, ",")
	sort.Strings(snames)
	out.filesSorted = strings.Join(snames, ",")
	return out
}

func init() {
	extraDrivers["flags"] = func(fs *flag.FlagSet, args []string) {
		bin := fs.String("gotree", "", "gotree binary built from /repo")
		out := fs.String("out", "trace.ndjson", "")
		shard := fs.Int("shard", 0, "")
		nshards := fs.Int("nshards", 1, "")
		fs.Parse(args)
		rows := []flagRow{}
		walkFlags(gcmd.RootCmd, nil, &rows)
		indir, err := os.MkdirTemp(filepath.Dir(*out), "flin")
		if err != nil {
			fatal("%v", err)
		}
		defer os.RemoveAll(indir)
		tplInputs := detInputs(indir, 5)
		// the same files on larger trees: a default that is computed from the input only shows on inputs large enough
		indirBig, err := os.MkdirTemp(filepath.Dir(*out), "flinbig")
		if err != nil {
			fatal("%v", err)
		}
		defer os.RemoveAll(indirBig)
		tplInputsBig := detInputsN(indirBig, 6, 30)
		shortOf = map[string]string{}
		collectShorthands(gcmd.RootCmd)
		f, err := os.Create(*out)
		if err != nil {
			fatal("%v", err)
		}
		defer f.Close()
		emit := func(m map[string]interface{}) {
			b, _ := json.Marshal(m)
			f.Write(b)
			f.Write([]byte("\n"))
		}
		n := 0
		if *shard == 0 {
			emit(map[string]interface{}{"ev": "case", "kind": "FlagTable", "case": "C19-table", "table": rows})
			n++
		}
		ran, mism := 0, 0
		for i, r := range rows {
			if i%*nshards != *shard {
				continue
			}
			top := strings.Fields(r.Cmd)
			skip := r.Cmd == "" || r.Flag == "seed" || r.Flag == "help" ||
				(len(top) > 0 && (top[0] == "download" || top[0] == "upload" || top[0] == "completion" || top[0] == "help"))
			ev := map[string]interface{}{"ev": "case", "kind": "FlagRun", "case": fmt.Sprintf("C19-%s--%s", strings.ReplaceAll(r.Cmd, " ", "_"), r.Flag),
				"cmd": r.Cmd, "flag": r.Flag, "def": r.Def, "cur": r.Cur, "ran": false, "same": true, "detail": ""}
			if r.Cur != r.Def {
				mism++
			}
			if !skip && *bin != "" {
				// a persistent option is exercised on the command that defines it and on every runnable command
				// below it; an option whose cell does not hold the documented default is also exercised with each
				// boolean option of the command switched on (its effect may depend on another option)
				ctxs := flagContexts(r, rows)
				// ... and on every valid invocation of the command known to the harness (the command templates of the
				// determinism check, the option under test removed from them)
				for _, tp := range detTemplates {
					if base := templateFor(tp, r, tplInputs); base != nil {
						ctxs = append(ctxs, base)
						if tp.args[0] != "generate" {
							ctxs = append(ctxs, templateFor(tp, r, tplInputsBig))
						}
					}
				}
				same, detail := true, ""
				for _, base := range ctxs {
					s2, d2 := omittedVsDefault(*bin, filepath.Dir(*out), base, r)
					if !s2 && same {
						same, detail = false, d2
					} else if d2 != "" && detail == "" {
						detail = d2
					}
				}
				ev["ran"] = true
				ev["same"] = same
				ev["detail"] = detail
				ev["contexts"] = len(ctxs)
				ran++
				emit(ev)
				n++
				continue
			}
			if false {
				base := append(strings.Fields(r.Cmd), "--seed", "1")
				def := r.Def
				if r.Typ == "stringSlice" || r.Typ == "intSlice" {
					def = strings.Trim(def, "[]")
				}
				a := runGotree(*bin, filepath.Dir(*out), base)
				b := runGotree(*bin, filepath.Dir(*out), append(append([]string{}, base...), "--"+r.Flag+"="+def))
				same := a.key() == b.key()
				if !same {
					// believed only when the omitted run is reproducible
					a2 := runGotree(*bin, filepath.Dir(*out), base)
					b2 := runGotree(*bin, filepath.Dir(*out), append(append([]string{}, base...), "--"+r.Flag+"="+def))
					if a2.key() != a.key() || b2.key() != b.key() {
						same = true
						ev["detail"] = "not reproducible: not judged"
					} else {
						ev["detail"] = fmt.Sprintf("omitted: rc=%d out=%q err=%q files=%s | given %s: rc=%d out=%q err=%q files=%s",
							a.rc, trunc(a.stdout), trunc(a.stderr), a.files, def, b.rc, trunc(b.stdout), trunc(b.stderr), b.files)
					}
				}
				ev["ran"] = true
				ev["same"] = same
				ran++
			}
			emit(ev)
			n++
		}
		summary(map[string]interface{}{"events": n, "options": len(rows), "options_run": ran, "static_mismatches": mism})
	}
}

func trunc(s string) string {
	if len(s) > 160 {
		return s[:160] + "..."
	}
	return s
}

var reScratch = regexp.MustCompile(`/(detin|detrun|fr)[0-9]+`)

// scratch directory names (random suffixes) written into log files are not output
func maskScratch(s, base string) string { return reScratch.ReplaceAllString(s, "/<scratch>") }

// the command lines on which option r is exercised
func flagContexts(r flagRow, rows []flagRow) [][]string {
	cmds := []string{r.Cmd}
	if r.Kind == "persistent" {
		seen := map[string]bool{r.Cmd: true}
		for _, o := range rows {
			if strings.HasPrefix(o.Cmd, r.Cmd+" ") && !seen[o.Cmd] {
				seen[o.Cmd] = true
				cmds = append(cmds, o.Cmd)
			}
		}
	}
	out := [][]string{}
	for _, c := range cmds {
		base := append(strings.Fields(c), "--seed", "1")
		out = append(out, base)
		if r.Cur != r.Def {
			for _, o := range rows {
				if o.Typ == "bool" && o.Flag != "help" && (o.Cmd == c || strings.HasPrefix(c, o.Cmd+" ") && o.Kind == "persistent") {
					out = append(out, append(append([]string{}, base...), "--"+o.Flag+"=true"))
				}
			}
		}
	}
	if len(out) > 40 {
		out = out[:40]
	}
	return out
}

func omittedVsDefault(bin, scratch string, base []string, r flagRow) (bool, string) {
	def := r.Def
	if r.Typ == "stringSlice" || r.Typ == "intSlice" {
		def = strings.Trim(def, "[]")
	}
	with := append(append([]string{}, base...), "--"+r.Flag+"="+def)
	a := runGotree(bin, scratch, base)
	b := runGotree(bin, scratch, with)
	if a.key() == b.key() {
		return true, ""
	}
	// believed only when both runs are reproducible (four runs each) and no outcome is common to both: a command whose
	// output depends on timing (two readers on the same standard input, ...) is not judged
	ka, kb := map[string]bool{a.key(): true}, map[string]bool{b.key(): true}
	for i := 0; i < 3; i++ {
		ka[runGotree(bin, scratch, base).key()] = true
		kb[runGotree(bin, scratch, with).key()] = true
	}
	if len(ka) > 1 || len(kb) > 1 {
		return true, "not reproducible: not judged"
	}
	return false, fmt.Sprintf("%v omitted: rc=%d out=%q err=%q files=%s | given %s: rc=%d out=%q err=%q files=%s",
		base, a.rc, trunc(a.stdout), trunc(a.stderr), a.files, def, b.rc, trunc(b.stdout), trunc(b.stderr), b.files)
}

var shortOf map[string]string // "cmd path|flag" -> shorthand letter

func collectShorthands(c *cobra.Command) {
	var rec func(c *cobra.Command, path []string)
	rec = func(c *cobra.Command, path []string) {
		p := append(append([]string{}, path...), c.Name())
		key := strings.Join(p[1:], " ")
		subCommands[key] = true
		visit := func(fl *pflag.Flag) {
			if fl.Shorthand != "" {
				shortOf[key+"|"+fl.Name] = fl.Shorthand
			}
		}
		c.LocalNonPersistentFlags().VisitAll(visit)
		c.PersistentFlags().VisitAll(visit)
		for _, s := range c.Commands() {
			rec(s, p)
		}
	}
	rec(c, nil)
}

// the arguments of a command template, concretised, with option r removed; nil when the template is not an
// invocation of the command that owns r (or of one of its sub-commands for a persistent option)
func templateFor(tp detTemplate, r flagRow, in map[string]string) []string {
	cmdToks := strings.Fields(r.Cmd)
	if len(tp.args) < len(cmdToks) || tp.stdin != "" {
		return nil
	}
	for i, t := range cmdToks {
		if tp.args[i] != t {
			return nil
		}
	}
	// the command path of the template = its leading tokens that are not options / placeholders
	n := 0
	for n < len(tp.args) && !strings.HasPrefix(tp.args[n], "-") && !strings.HasPrefix(tp.args[n], "@") {
		n++
	}
	if r.Kind != "persistent" && n != len(cmdToks) {
		// a local option belongs to exactly this command (positional arguments may follow the path)
		if n < len(cmdToks) {
			return nil
		}
		// tokens after the command path that are not options are positional arguments: accept only if the path matches
		full := strings.Join(tp.args[:len(cmdToks)], " ")
		if full != r.Cmd {
			return nil
		}
		// reject when the next token is a sub-command name (e.g. "reroot outgroup" for an option of "reroot")
		if len(tp.args) > len(cmdToks) && !strings.HasPrefix(tp.args[len(cmdToks)], "-") && !strings.HasPrefix(tp.args[len(cmdToks)], "@") {
			if _, isSub := subCommands[r.Cmd+" "+tp.args[len(cmdToks)]]; isSub {
				return nil
			}
		}
	}
	long := "--" + r.Flag
	short := ""
	if s, ok := shortOf[r.Cmd+"|"+r.Flag]; ok {
		short = "-" + s
	}
	out := []string{}
	for i := 0; i < len(tp.args); i++ {
		a := tp.args[i]
		if a == long || (short != "" && a == short) {
			if r.Typ != "bool" && i+1 < len(tp.args) {
				i++ // its value
			}
			continue
		}
		if strings.HasPrefix(a, long+"=") {
			continue
		}
		switch {
		case a == "@O1" || a == "@O2":
			out = append(out, a) // replaced per run below
		case strings.HasPrefix(a, "@"):
			out = append(out, in[a])
		default:
			out = append(out, a)
		}
	}
	for i, a := range out {
		if a == "@O1" {
			out[i] = "out1.txt"
		} else if a == "@O2" {
			out[i] = "out2.txt"
		}
	}
	return append(out, "--seed", "1")
}

var subCommands = map[string]bool{}
